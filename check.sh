#!/bin/sh
# entry point of every registered check: ./check.sh <ID> quick|thorough   |   ./check.sh --replay <file>
cd "$(dirname "$0")" || exit 2
export GOFLAGS=-mod=mod GOPROXY=off
export VERIF_DIR="$(pwd)"
if [ ! -x bin/govc ]; then ./setup.sh >&2 || exit 2; fi
if [ "$1" = "--replay" ]; then exec bin/govc replay "$2"; fi
exec bin/govc check "$1" --tier "${2:-${VERIF_TIER:-quick}}"
