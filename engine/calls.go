package main

import (
	"fmt"
	"go/ast"
	"go/token"
	"go/types"
	"math/big"
	"sort"
	"strings"

	"golang.org/x/tools/go/ssa"
)

func (e *Enc) tupleTypes(t types.Type) []types.Type {
	if t == nil {
		return nil
	}
	if tup, ok := t.(*types.Tuple); ok {
		var ts []types.Type
		for i := 0; i < tup.Len(); i++ {
			ts = append(ts, tup.At(i).Type())
		}
		return ts
	}
	return []types.Type{t}
}

func (e *Enc) havocResults(fr *Frame, x *ssa.Call, prefix string) []*Term {
	var ts []*Term
	for _, t := range e.tupleTypes(x.Type()) {
		ts = append(ts, e.fresh(prefix, t))
	}
	if len(ts) == 0 {
		ts = []*Term{e.tb.True()}
	}
	fr.vals[x] = Val{T: ts}
	return ts
}

func (e *Enc) contractAtCall(callee *ssa.Function) *FuncContract {
	if callee.Parent() != nil {
		return nil
	}
	c := e.L.contracts.funcs[funcKey(callee)]
	if c == nil {
		return nil
	}
	// a function under verification calling itself recursively also uses its contract
	return c
}

func (e *Enc) call(fr *Frame, x *ssa.Call, st *State) {
	if e.yieldParam != nil {
		// the protocol callback handed on to somebody else: that callee may call it (as long as it has not said stop)
		isY := e.tb.False()
		for _, a := range x.Common().Args {
			if _, lit := a.(*ssa.MakeClosure); lit {
				continue
			}
			if v := e.val(fr, a); len(v.T) == 1 && v.T[0].sort == "Fn" && e.mayBeYield(a.Type()) {
				isY = e.tb.Or(isY, e.tb.Eq(v.T[0], e.yieldParam))
			}
		}
		if !e.tb.isFalse(isY) {
			stopped := e.yieldStopped(st)
			e.call0(fr, x, st)
			e.setYield(st, e.tb.Ite(isY, e.tb.Fresh("yieldstopped", "Bool"), e.yieldStopped(st)), e.tb.Or(e.yieldBad(st), e.tb.And(isY, stopped)))
			e.setYieldCount(st, e.tb.Ite(isY, e.tb.Fresh("yieldcount", "Int"), e.yieldCount(st)))
			e.modelled("a callee that is handed the `yields` callback calls it only during the call and never after it returned false (protocol of the callee, assumed)")
			return
		}
	}
	e.call0(fr, x, st)
}

// the two ghost registers of the `yields` protocol: the callback has returned false / it was called after that
func (e *Enc) yieldReg(which string) *regInfo {
	return e.ghostReg("$yield"+which, "Int", "Bool", types.Typ[types.Bool])
}
func (e *Enc) yieldStopped(st *State) *Term {
	return e.tb.Select(e.reg(st, e.yieldReg("stopped")), e.tb.Int(0))
}
func (e *Enc) yieldBad(st *State) *Term {
	return e.tb.Select(e.reg(st, e.yieldReg("bad")), e.tb.Int(0))
}
func (e *Enc) setYield(st *State, stopped, bad *Term) {
	rs, rb := e.yieldReg("stopped"), e.yieldReg("bad")
	e.setReg(st, rs, e.tb.Store(e.reg(st, rs), e.tb.Int(0), stopped))
	e.setReg(st, rb, e.tb.Store(e.reg(st, rb), e.tb.Int(0), bad))
}
func (e *Enc) havocYield(st *State) {
	if e.yieldParam == nil {
		return
	}
	e.setYield(st, e.tb.Fresh("yieldstopped", "Bool"), e.tb.Fresh("yieldbad", "Bool"))
	e.setYieldCount(st, e.tb.Fresh("yieldcount", "Int"))
}

// number of calls of the `yields` callback so far (for checking the unit's own `iterates` summary)
func (e *Enc) yieldCountReg() *regInfo {
	return e.ghostReg("$yieldcount", "Int", "Int", types.Typ[types.Int])
}
func (e *Enc) yieldCount(st *State) *Term {
	return e.tb.Select(e.reg(st, e.yieldCountReg()), e.tb.Int(0))
}
func (e *Enc) setYieldCount(st *State, n *Term) {
	r := e.yieldCountReg()
	e.setReg(st, r, e.tb.Store(e.reg(st, r), e.tb.Int(0), n))
}

// yieldArgsObligation: the unit declares `iterates <param> count N args A1, A2` for the callback it `yields`: this call
// of the callback is call number yieldcount() and must pass exactly the arguments the summary states for that index.
func (e *Enc) yieldArgsObligation(fr *Frame, x *ssa.Call, st *State, isY *Term, args []Val) {
	con := e.topCon()
	if con == nil || con.iter == nil || con.iter.param != e.yieldName || e.yieldEnv == nil || con.opts["iterates-checked"] != "true" {
		return
	}
	tb := e.tb
	env := e.yieldEnv(st)
	n := e.yieldCount(st)
	env.vars["cbidx"] = SV{t: n, typ: types.Typ[types.Int]}
	goal := tb.True()
	if cnt, err := env.evalAny(con.iter.count); err == nil && cnt.t != nil && cnt.t.sort == "Int" {
		goal = tb.Lt(n, cnt.t)
	} else {
		e.contractError(fr, "iterates", fmt.Errorf("count: %v", err))
		return
	}
	if len(args) != len(con.iter.args) {
		goal = tb.False()
	} else {
		for i, ax := range con.iter.args {
			sv, err := env.evalAny(ax)
			if err != nil || sv.t == nil {
				e.contractError(fr, "iterates", fmt.Errorf("argument %d: %v", i, err))
				return
			}
			a := args[i].t()
			if sv.t.sort != a.sort {
				if a.sort == "Iface" {
					sv.t = tb.Box(e.typeKey(sv.typ), e.sortOf(sv.typ), sv.t)
				} else {
					e.contractError(fr, "iterates", fmt.Errorf("argument %d has sort %s, the summary states %s", i, a.sort, sv.t.sort))
					return
				}
			}
			goal = tb.And(goal, tb.Eq(a, sv.t))
		}
	}
	s2 := st.clone()
	s2.reach = tb.And(st.reach, isY)
	q := e.oblige("protocol", e.yieldName+"-called-as-summarised", &s2, goal, x.Pos(), e.inputVals()...)
	q.Text = "call number yieldcount() of " + e.yieldName + " passes the arguments of the summary `iterates " + con.iter.text + "` for cbidx == yieldcount(), and yieldcount() < count"
}

func (e *Enc) call0(fr *Frame, x *ssa.Call, st *State) {
	c := x.Common()
	var args []Val
	if c.IsInvoke() {
		recv := e.val(fr, c.Value)
		args = append(args, recv)
		for _, a := range c.Args {
			args = append(args, e.val(fr, a))
		}
		e.invoke(fr, x, st, recv, args)
		return
	}
	if bi, ok := c.Value.(*ssa.Builtin); ok {
		e.builtin(fr, x, bi, st)
		return
	}
	for _, a := range c.Args {
		args = append(args, e.val(fr, a))
	}
	callee := c.StaticCallee()
	if callee == nil {
		e.dynamicCall(fr, x, st, args)
		return
	}
	// closure created in this frame and called directly: inline it with its bindings
	if mc, ok := c.Value.(*ssa.MakeClosure); ok && e.inlinable(callee) {
		var binds []Val
		for _, b := range mc.Bindings {
			binds = append(binds, e.val(fr, b))
		}
		e.inlineCall(fr, x, callee, args, binds, st)
		return
	}
	if mc, ok := c.Value.(*ssa.MakeClosure); ok && callee.Synthetic != "" && strings.HasSuffix(callee.Name(), "$bound") && len(callee.Blocks) == 1 && len(e.stack) < 6 {
		// a method value called directly (range-over-func over x.Iter): the wrapper only forwards to the method
		var binds []Val
		for _, b := range mc.Bindings {
			binds = append(binds, e.val(fr, b))
		}
		e.inlineCall(fr, x, callee, args, binds, st)
		return
	}
	if !inRepo(callee) {
		e.libraryCall(fr, x, callee, args, st)
		return
	}
	if con := e.contractAtCall(callee); con != nil && con.iter != nil {
		if e.callbackLoop(fr, x, callee, con, args, st) {
			return
		}
		// an iterating function called without callback clauses: what the function passed in does is unknown
		e.lazyViolation(fr, x, st, "call of "+shortFuncName(callee)+" (iterates a callback)")
		e.note("iterating call without callback clauses: " + shortFuncName(callee))
		for _, a := range args {
			for _, t := range a.T {
				e.markEscaped(t, 0)
			}
		}
		e.havocResults(fr, x, "r_"+callee.Name())
		e.havocAll(st, "call "+callee.Name()+" with a callback")
		return
	}
	if con := e.contractAtCall(callee); con != nil && !(con.inlineOK && e.inlinable(callee)) {
		if con.opts["evaluates"] == "true" {
			e.lazyViolation(fr, x, st, "call of "+shortFuncName(callee)+", which evaluates list elements")
		}
		e.applyContract(fr, x, callee, con, args, st, shortFuncName(callee))
		return
	}
	if e.inlinable(callee) {
		e.inlineCall(fr, x, callee, args, nil, st)
		return
	}
	e.lazyViolation(fr, x, st, "call of "+shortFuncName(callee)+" (no contract: unknown effect)")
	e.note("call without contract, not inlinable: " + shortFuncName(callee))
	e.derivedStackNeed(fr, x, callee, args, st)
	e.havocResults(fr, x, "call_"+callee.Name())
	for _, a := range args {
		e.markEscaped(a.t(), 0)
	}
	e.havocAll(st, "call "+callee.Name())
}

func (e *Enc) inlineCall(fr *Frame, x *ssa.Call, callee *ssa.Function, args, binds []Val, st *State) {
	res, out, sub := e.encodeFunc(callee, args, binds, *st, fr, nil, func(sub *Frame) { sub.callSite = x })
	// a panic inside the inlined callee is a panic of the caller
	fr.panics = append(fr.panics, sub.panics...)
	*st = out
	if len(res) == 0 {
		res = []*Term{e.tb.True()}
	}
	fr.vals[x] = Val{T: res}
}

func (e *Enc) inlinable(fn *ssa.Function) bool {
	if fn.Blocks == nil || len(fn.Blocks) > 24 || len(e.stack) > 6 {
		return false
	}
	if !inRepo(fn) {
		return false
	}
	for _, s := range e.stack {
		if s == fn {
			return false
		}
	}
	if fn.Recover != nil {
		return false
	}
	for _, b := range fn.Blocks {
		for _, s := range b.Succs {
			if isBackEdge(b, s) {
				return false
			}
		}
		for _, in := range b.Instrs {
			switch in.(type) {
			case *ssa.MakeClosure, *ssa.Go, *ssa.Defer, *ssa.Select, *ssa.Send:
				return false
			}
		}
	}
	return true
}

// ---------- contracts at call sites ----------

func (e *Enc) envForCall(callee *ssa.Function, args []Val, results []*Term, st *State, old *State) *evalEnv {
	env := &evalEnv{e: e, st: st, old: old, vars: map[string]SV{}, bound: map[string]SV{}, fn: callee}
	if p := e.L.typesPkg(funcPkgPath(callee)); p != nil {
		env.pkg = p
	}
	if callee == e.top && e.topConPkg != "" {
		if p := e.L.typesPkg(e.topConPkg); p != nil {
			env.pkg = p // clauses are resolved in the package that declares the contract
		}
	}
	for i, p := range callee.Params {
		if i < len(args) {
			env.vars[p.Name()] = SV{t: args[i].t(), typ: p.Type(), addr: args[i].Addr, pointee: args[i].Addr != nil}
		}
	}
	if ta := callee.TypeArgs(); len(ta) > 0 {
		if o := callee.Origin(); o != nil {
			var tps *types.TypeParamList
			if o.Signature.Recv() != nil {
				rt := o.Signature.Recv().Type()
				if p, ok := rt.(*types.Pointer); ok {
					rt = p.Elem()
				}
				if n, ok := rt.(*types.Named); ok {
					tps = n.TypeParams()
				}
			} else {
				tps = o.Signature.TypeParams()
			}
			if tps != nil {
				env.typeVars = map[string]types.Type{}
				for i := 0; i < tps.Len() && i < len(ta); i++ {
					env.typeVars[tps.At(i).Obj().Name()] = ta[i]
				}
			}
		}
	}
	if e.envAlias != nil && callee == e.top {
		e.envAlias(env, args)
	}
	if callee == e.top && len(callee.FreeVars) > 0 && len(e.freeVarVals) == len(callee.FreeVars) {
		// captured variables are visible to the contract of a function literal under their source names
		bind := func(into map[string]SV, s *State) {
			for i, fv := range callee.FreeVars {
				if _, clash := env.vars[fv.Name()]; clash && into[fv.Name()].addr == nil {
					continue
				}
				v := e.freeVarVals[i]
				if pt, ok := fv.Type().Underlying().(*types.Pointer); ok {
					ad := e.addrOf(v, pt.Elem())
					into[fv.Name()] = SV{t: e.load(s, ad), typ: pt.Elem(), addr: ad}
				} else {
					into[fv.Name()] = SV{t: v.t(), typ: fv.Type()}
				}
			}
		}
		bind(env.vars, st)
		if old != nil && old != st {
			env.oldVars = map[string]SV{}
			for k, v := range env.vars {
				env.oldVars[k] = v
			}
			bind(env.oldVars, old)
		}
	}
	if results != nil {
		rs := callee.Signature.Results()
		for i := 0; i < rs.Len(); i++ {
			sv := SV{t: results[i], typ: rs.At(i).Type()}
			env.vars[fmt.Sprintf("result%d", i)] = sv
			if rs.Len() == 1 {
				env.vars["result"] = sv
			}
			if n := rs.At(i).Name(); n != "" && n != "_" {
				if _, clash := env.vars[n]; !clash {
					env.vars[n] = sv
				}
			}
		}
	}
	return env
}

func clauseLabel(kind string, k int, cl clause) string {
	if cl.label != "" {
		return cl.label
	}
	return fmt.Sprintf("%s%d", kind, k+1)
}

func (e *Enc) applyContract(fr *Frame, x *ssa.Call, callee *ssa.Function, con *FuncContract, args []Val, st *State, name string) {
	tb := e.tb
	con.used = true
	if con.trusted {
		e.modelled("TRUSTED contract (assumed, body not verified): " + name)
	}
	pre := st.clone()
	env := e.envForCall(callee, args, nil, st, &pre)
	for k, cl := range con.requires {
		t, err := env.evalBool(cl.expr)
		if err != nil {
			e.contractError(fr, "callpre:"+name, err)
			continue
		}
		site := e.srcText(fr.fn, x.Pos(), isCallExpr)
		if len(site) > 48 {
			site = site[:48]
		}
		q := e.oblige("callpre", name+"."+clauseLabel("requires", k, cl)+":"+site, st, t, x.Pos(), e.inputVals()...)
		q.Text = cl.text
	}
	e.havocAssigns(fr, con, env, st, args, "call_"+callee.Name())
	res := e.havocResults(fr, x, "r_"+callee.Name())
	env2 := e.envForCall(callee, args, res, st, &pre)
	env2.calleeFresh = true
	for _, cl := range con.ensures {
		t, err := env2.evalBool(cl.expr)
		if err != nil {
			e.contractError(fr, "callpost:"+name, err)
			continue
		}
		e.assume(st.reach, t)
	}
	_ = tb
}

// havocAssigns applies the frame of a contract at a call: everything named by `assigns` gets an unknown value.
func (e *Enc) havocAssigns(fr *Frame, con *FuncContract, env *evalEnv, st *State, args []Val, why string) {
	tb := e.tb
	if con.assigns == nil {
		for _, a := range args {
			e.markEscaped(a.t(), 0)
		}
		e.havocAll(st, why)
		return
	}
	// what is passed to the callee may be written by it
	for _, a := range args {
		for _, t := range a.T {
			e.markEscaped(t, 0)
		}
	}
	for _, cl := range con.assigns {
		if cl.kind == "assigns-any" {
			r, err := e.anyReg(env, cl.text)
			if err != nil {
				e.contractError(fr, "assigns", err)
				e.havocAll(st, why)
				return
			}
			before := e.reg(st, r)
			nw := tb.Fresh("hv_any_"+why, r.sort)
			// objects this function allocated and never handed out (no store of the reference, not an argument of
			// any call) cannot be reached by the callee
			for _, a := range e.allocs {
				if !a.escaped && e.regHoldsAlloc(r, a) {
					nw = tb.Store(nw, a.ref, tb.Select(before, a.ref))
				}
			}
			e.setReg(st, r, nw)
			continue
		}
		sv, err := env.evalAny(cl.expr)
		if err != nil {
			e.contractError(fr, "assigns", err)
			e.havocAll(st, why)
			return
		}
		if sv.wlog {
			for _, n := range []string{"W:len", "W:kind", "W:int", "W:str"} {
				r := e.wReg(n)
				_, es := arrayElemSort(r.sort)
				e.setReg(st, r, tb.Store(e.reg(st, r), sv.t, tb.Fresh("hv_log_"+why, es)))
			}
			continue
		}
		if sv.greg != nil {
			_, es := arrayElemSort(sv.greg.sort)
			nv := tb.Fresh("hv_ghost_"+why, es)
			e.setReg(st, sv.greg, tb.Store(e.reg(st, sv.greg), sv.gidx, nv))
			e.assumeWF(tb.True(), sv.greg.typ, nv)
			continue
		}
		if sv.addr == nil {
			e.contractError(fr, "assigns", fmt.Errorf("`%s` does not denote a location", cl.text))
			e.havocAll(st, why)
			return
		}
		if sv.all { // all elements behind a slice
			r := e.elemReg(sv.addr.root)
			h := e.reg(st, r)
			e.setReg(st, r, tb.Store(h, sv.addr.ref, tb.Fresh("hv_row_"+why, arraySort("Int", e.sortOf(sv.addr.root)))))
			continue
		}
		nv := e.fresh("hv_"+why, addrType(sv.addr))
		e.store(st, sv.addr, nv)
	}
}

// assignRegs adds the registers an assigns location can touch (static approximation for loop havoc).
// anyReg resolves `T.f` / `[]T` to a heap register.
func (e *Enc) anyReg(env *evalEnv, text string) (r *regInfo, err error) {
	defer func() {
		if rec := recover(); rec != nil {
			if ee, ok := rec.(evalError); ok {
				err = ee
				return
			}
			panic(rec)
		}
	}()
	if strings.HasPrefix(text, "[]") {
		return e.elemReg(env.typeFromText(text[2:])), nil
	}
	if g, ok := e.L.contracts.ghosts[text]; ok && g.isVar {
		// `any <ghost variable>`: every entry of the ghost variable
		if r, ok := e.regs["G:"+text]; ok {
			return r, nil
		}
		// not touched yet in this unit: evaluate a dummy application to create the register
		if len(g.params) == 1 {
			pt := env.typeFromTextGeneric(g.params[0].typ, SV{})
			rt := env.typeFromTextGeneric(g.result, SV{})
			if pt != nil && rt != nil {
				return e.ghostReg(text, e.sortOf(pt), e.sortOf(rt), rt), nil
			}
		}
	}
	if strings.HasPrefix(text, "*") {
		return e.ptrReg(env.typeFromText(text[1:])), nil
	}
	i := strings.LastIndex(text, ".")
	if i < 0 {
		return nil, fmt.Errorf("`any %s`: expected T.f or []T", text)
	}
	t := env.typeFromText(text[:i])
	u, ok := t.Underlying().(*types.Struct)
	if !ok {
		return nil, fmt.Errorf("`any %s`: %s is not a struct type", text, text[:i])
	}
	s := e.structSortOf(t, u)
	for k := 0; k < u.NumFields(); k++ {
		if u.Field(k).Name() == text[i+1:] {
			return e.fieldReg(s, u, k), nil
		}
	}
	return nil, fmt.Errorf("`any %s`: no such field", text)
}

func (e *Enc) assignRegs(callee *ssa.Function, cl clause, ws *writeSet) bool {
	// evaluate the location with symbolic placeholder arguments just to learn its register
	st := State{reach: e.tb.True(), heap: map[string]*Term{}}
	var args []Val
	for _, p := range callee.Params {
		args = append(args, Val{T: []*Term{e.tb.Const("ws_"+p.Name()+"_"+e.sortOf(p.Type()), e.sortOf(p.Type()))}})
	}
	env := e.envForCall(callee, args, nil, &st, &st)
	return e.clauseRegs(env, cl, ws)
}

// clauseRegs adds the registers an assigns location (evaluated in env) can touch.
func (e *Enc) clauseRegs(env *evalEnv, cl clause, ws *writeSet) bool {
	if cl.kind == "assigns-any" {
		r, err := e.anyReg(env, cl.text)
		if err != nil {
			return false
		}
		ws.regs[r.name] = true
		return true
	}
	sv, err := env.evalAny(cl.expr)
	if err == nil && sv.wlog {
		for _, n := range []string{"W:len", "W:kind", "W:int", "W:str"} {
			ws.regs[e.wReg(n).name] = true
		}
		return true
	}
	if err == nil && sv.greg != nil {
		ws.regs[sv.greg.name] = true
		return true
	}
	if err != nil || sv.addr == nil {
		return false
	}
	a := sv.addr
	if a.elem {
		ws.regs[e.elemReg(a.root).name] = true
		return true
	}
	if u, ok := a.root.Underlying().(*types.Struct); ok {
		s := e.structSortOf(a.root, u)
		if len(a.path) > 0 && a.path[0].kind == stField {
			ws.regs[e.fieldReg(s, u, a.path[0].field).name] = true
		} else {
			for i := 0; i < u.NumFields(); i++ {
				ws.regs[e.fieldReg(s, u, i).name] = true
			}
		}
		return true
	}
	ws.regs[e.ptrReg(a.root).name] = true
	return true
}

// typeContractRegs: the registers a call through a function / interface value under contract can touch.
func (e *Enc) typeContractRegs(tc *FuncContract, sig *types.Signature, ftype types.Type, recvIface bool, ws *writeSet) bool {
	st := State{reach: e.tb.True(), heap: map[string]*Term{}}
	var args []Val
	for i := 0; i < sig.Params().Len(); i++ {
		t := sig.Params().At(i).Type()
		args = append(args, Val{T: []*Term{e.tb.Const(fmt.Sprintf("wsd_%d_%s", i, sanitize(e.sortOf(t))), e.sortOf(t))}})
	}
	f := Val{T: []*Term{e.tb.Const("wsd_self_"+sanitize(e.sortOf(ftype)), e.sortOf(ftype))}}
	env := e.typeContractEnv(tc, sig, f, ftype, args, nil, &st, &st)
	if recvIface {
		env.vars["self"] = SV{t: f.t(), typ: ftype}
	}
	for _, cl := range tc.assigns {
		if !e.clauseRegs(env, cl, ws) {
			return false
		}
	}
	return true
}

func (e *Enc) contractError(fr *Frame, what string, err error) {
	// a contract that cannot be evaluated is a failing obligation, never silently skipped
	st := State{reach: e.tb.True(), heap: map[string]*Term{}}
	q := e.oblige("contract-target", what, &st, e.tb.False(), token.NoPos)
	q.Text = err.Error()
}

// ---------- dynamic calls ----------

// lazyConstructor: the unit under verification is declared `option constructs-lazily`: its own body (including what it
// inlines, excluding the function literals it creates) must not evaluate anything - no call of a function value, no call
// of a function that evaluates list elements, no call whose effect is unknown.
func (e *Enc) lazyViolation(fr *Frame, x *ssa.Call, st *State, what string) {
	con := e.topCon()
	if con == nil || con.opts["constructs-lazily"] != "true" {
		return
	}
	for f := fr; f != nil; f = f.parent {
		if f.con != nil && f.con.kind == "closure-body" {
			return // inside a literal verified at its creation site: that code runs later
		}
	}
	site := e.srcText(fr.fn, x.Pos(), isCallExpr)
	if len(site) > 48 {
		site = site[:48]
	}
	e.lazyReach = append(e.lazyReach, st.reach)
	e.lazyWhat = append(e.lazyWhat, site+": "+what)
}

func (e *Enc) dynamicCall(fr *Frame, x *ssa.Call, st *State, args []Val) {
	c := x.Common()
	f := e.val(fr, c.Value)
	e.lazyViolation(fr, x, st, "call of a function value")
	if tc := e.L.typeContract(c.Value.Type()); tc != nil {
		e.applyTypeContract(fr, x, tc, f, args, st)
		return
	}
	if name, ok := e.pureCallee(fr, c.Value); ok {
		// a pure function value: the result is a function of the value and the arguments, nothing is assigned
		tb := e.tb
		var sorts []string
		ts := []*Term{f.t()}
		sorts = append(sorts, "Fn")
		for _, a := range args {
			sorts = append(sorts, a.t().sort)
			ts = append(ts, a.t())
		}
		var res []*Term
		for i, rt := range e.tupleTypes(x.Type()) {
			r := tb.Func(fmt.Sprintf("pureapp%d_%s_%s", i, sanitize(strings.Join(sorts, "_")), sanitize(e.sortOf(rt))), sorts, e.sortOf(rt), ts...)
			e.assumeWF(tb.True(), rt, r)
			res = append(res, r)
		}
		if len(res) == 0 {
			res = []*Term{tb.True()}
		}
		fr.vals[x] = Val{T: res}
		e.modelled("function value `" + name + "` declared pure by the contract: deterministic, assigns nothing")
		return
	}
	e.safetyObl(fr, st, "nilfunc", x.Pos(), isCallExpr, e.tb.Not(e.tb.Eq(f.t(), e.tb.Const("nilFn", "Fn"))))
	if e.yieldParam != nil {
		// possibly a call of the protocol callback: calling it after it returned false is the violation; its result is
		// the new state
		isY := e.tb.Eq(f.t(), e.yieldParam)
		if !e.mayBeYield(c.Value.Type()) {
			isY = e.tb.False()
		}
		stopped, bad := e.yieldStopped(st), e.yieldBad(st)
		cnt := e.yieldCount(st)
		e.yieldArgsObligation(fr, x, st, isY, args)
		res := e.havocResults(fr, x, "yield")
		for _, a := range args {
			e.markEscaped(a.t(), 0)
		}
		e.havocAll(st, "call of a function value / the callback "+e.yieldName)
		now := e.tb.False()
		if len(res) == 1 && res[0].sort == "Bool" {
			now = e.tb.Not(res[0])
		}
		e.setYield(st, e.tb.Ite(isY, now, stopped), e.tb.Or(bad, e.tb.And(isY, stopped)))
		e.setYieldCount(st, e.tb.Ite(isY, e.tb.Add(cnt, e.tb.Int(1)), cnt))
		return
	}
	e.note("dynamic call without type contract: " + c.Value.Type().String())
	e.havocResults(fr, x, "dyn")
	for _, a := range args {
		e.markEscaped(a.t(), 0)
	}
	e.havocAll(st, "dynamic call")
}

func (e *Enc) typeContractEnv(tc *FuncContract, sig *types.Signature, f Val, ftype types.Type, args []Val, results []*Term, st, old *State) *evalEnv {
	env := &evalEnv{e: e, st: st, old: old, vars: map[string]SV{}, bound: map[string]SV{}}
	env.pkg = e.L.typesPkg(tc.pkg)
	env.self = SV{t: f.t(), typ: ftype}
	env.typeVars = typeVarsOf(ftype)
	// parameter names: from option `params=a,b,c`, else from the signature
	var names []string
	if p, ok := tc.opts["params"]; ok {
		names = strings.Split(p, ",")
	}
	for i := 0; i < sig.Params().Len() && i < len(args); i++ {
		n := sig.Params().At(i).Name()
		if i < len(names) {
			n = strings.TrimSpace(names[i])
		}
		if n == "" {
			n = fmt.Sprintf("arg%d", i)
		}
		env.vars[n] = SV{t: args[i].t(), typ: sig.Params().At(i).Type(), addr: args[i].Addr, pointee: args[i].Addr != nil}
	}
	if results != nil {
		for i := 0; i < sig.Results().Len(); i++ {
			sv := SV{t: results[i], typ: sig.Results().At(i).Type()}
			env.vars[fmt.Sprintf("result%d", i)] = sv
			if sig.Results().Len() == 1 {
				env.vars["result"] = sv
			}
		}
	}
	return env
}

func (e *Enc) applyTypeContract(fr *Frame, x *ssa.Call, tc *FuncContract, f Val, args []Val, st *State) {
	c := x.Common()
	tc.used = true
	sig := c.Value.Type().Underlying().(*types.Signature)
	if tc.iter != nil {
		// a function value that iterates a callback (an iterator): a literal passed to it is verified as the loop body
		var names []string
		if p, ok := tc.opts["params"]; ok {
			for _, n := range strings.Split(p, ",") {
				names = append(names, strings.TrimSpace(n))
			}
		}
		for i := len(names); i < sig.Params().Len(); i++ {
			names = append(names, sig.Params().At(i).Name())
		}
		if e.callbackLoopG(fr, x, tc.key, names, c.Args, tc, func(s, pre *State) *evalEnv {
			return e.typeContractEnv(tc, sig, f, c.Value.Type(), args, nil, s, pre)
		}, st) {
			e.modelled("ASSUMED iteration protocol of function values of type " + tc.key + " (type contract with `iterates`)")
			return
		}
		e.note("iterating function value without callback clauses: " + tc.key)
		e.havocResults(fr, x, "dyn_"+tc.key)
		for _, a := range args {
			e.markEscaped(a.t(), 0)
		}
		e.havocAll(st, "call of an iterator "+tc.key+" with a callback")
		return
	}
	pre := st.clone()
	env := e.typeContractEnv(tc, sig, f, c.Value.Type(), args, nil, st, &pre)
	label := e.srcText(fr.fn, x.Pos(), isCallExpr)
	if len(label) > 50 {
		label = label[:50]
	}
	for k, cl := range tc.requires {
		t, err := env.evalBool(cl.expr)
		if err != nil {
			e.contractError(fr, "callpre:"+tc.key, err)
			continue
		}
		q := e.oblige("callpre", tc.key+"."+clauseLabel("requires", k, cl)+":"+label, st, t, x.Pos(), e.inputVals()...)
		q.Text = cl.text
	}
	e.havocAssigns(fr, tc, env, st, args, "dyn_"+tc.key)
	res := e.havocResults(fr, x, "r_"+tc.key)
	env2 := e.typeContractEnv(tc, sig, f, c.Value.Type(), args, res, st, &pre)
	env2.calleeFresh = true
	for _, cl := range tc.ensures {
		t, err := env2.evalBool(cl.expr)
		if err != nil {
			e.contractError(fr, "callpost:"+tc.key, err)
			continue
		}
		e.assume(st.reach, t)
	}
}

// ---------- interface method calls ----------

func (e *Enc) invoke(fr *Frame, x *ssa.Call, st *State, recv Val, args []Val) {
	c := x.Common()
	tb := e.tb
	if isLibraryType(c.Value.Type()) {
		res := e.havocResults(fr, x, "inv_"+c.Method.Name())
		e.modelled("methods of library interfaces (error, fmt.Stringer, ...) are trusted to assign nothing")
		_ = res
		return
	}
	if e.hookInvoke(fr, x, st, recv, args) {
		return
	}
	if ic := e.L.ifaceContract(c.Value.Type(), c.Method.Name()); ic != nil && ic.iter != nil {
		sig := c.Method.Type().(*types.Signature)
		names := []string{"self"}
		for i := 0; i < sig.Params().Len(); i++ {
			names = append(names, sig.Params().At(i).Name())
		}
		callArgs := append([]ssa.Value{c.Value}, c.Args...)
		if e.callbackLoopG(fr, x, ic.key, names, callArgs, ic, func(s, pre *State) *evalEnv {
			env := e.typeContractEnv(ic, sig, recv, c.Value.Type(), args[1:], nil, s, pre)
			env.vars["self"] = SV{t: recv.t(), typ: c.Value.Type()}
			return env
		}, st) {
			e.safetyObl(fr, st, "nilinvoke", x.Pos(), isCallExpr, tb.Not(tb.Eq(recv.t(), tb.NilIface())))
			return
		}
		e.lazyViolation(fr, x, st, "call of "+ic.key+" (iterates a callback)")
		e.note("iterating call without callback clauses: " + ic.key)
		for _, a := range args {
			for _, t := range a.T {
				e.markEscaped(t, 0)
			}
		}
		e.havocResults(fr, x, "inv_"+c.Method.Name())
		e.havocAll(st, "invoke "+c.Method.Name()+" with a callback")
		return
	}
	if ic := e.L.ifaceContract(c.Value.Type(), c.Method.Name()); ic != nil {
		ic.used = true
		if ic.opts["no-impl-check"] == "true" {
			e.modelled("ASSUMED interface contract (implementations not checked): " + ic.key)
		}
		if ic.opts["evaluates"] == "true" {
			e.lazyViolation(fr, x, st, "call of "+ic.key+", which evaluates list elements")
		}
		sig := c.Method.Type().(*types.Signature)
		pre := st.clone()
		mk := func(results []*Term, s *State) *evalEnv {
			env := e.typeContractEnv(ic, sig, recv, c.Value.Type(), args[1:], results, s, &pre)
			env.vars["self"] = SV{t: recv.t(), typ: c.Value.Type()}
			return env
		}
		env := mk(nil, st)
		for k, cl := range ic.requires {
			t, err := env.evalBool(cl.expr)
			if err != nil {
				e.contractError(fr, "callpre:"+ic.key, err)
				continue
			}
			e.oblige("callpre", ic.key+"."+clauseLabel("requires", k, cl), st, t, x.Pos(), e.inputVals()...).Text = cl.text
		}
		e.safetyObl(fr, st, "nilinvoke", x.Pos(), isCallExpr, tb.Not(tb.Eq(recv.t(), tb.NilIface())))
		e.havocAssigns(fr, ic, env, st, args, "inv_"+ic.key)
		res := e.havocResults(fr, x, "r_"+c.Method.Name())
		env2 := mk(res, st)
		env2.calleeFresh = true
		for _, cl := range ic.ensures {
			t, err := env2.evalBool(cl.expr)
			if err != nil {
				e.contractError(fr, "callpost:"+ic.key, err)
				continue
			}
			e.assume(st.reach, t)
		}
		return
	}
	e.lazyViolation(fr, x, st, "call of an interface method without contract (unknown effect)")
	e.note("invoke without interface contract: " + c.Value.Type().String() + "." + c.Method.Name())
	e.havocResults(fr, x, "inv_"+c.Method.Name())
	for _, a := range args {
		e.markEscaped(a.t(), 0)
	}
	e.havocAll(st, "invoke "+c.Method.Name())
}

// hookInvoke: devirtualisation when the receiver's dynamic type is statically known (a box constructor).
func (e *Enc) hookInvoke(fr *Frame, x *ssa.Call, st *State, recv Val, args []Val) bool {
	return false
}

// ---------- builtins ----------

func (e *Enc) builtin(fr *Frame, x *ssa.Call, bi *ssa.Builtin, st *State) {
	tb := e.tb
	args := x.Call.Args
	switch bi.Name() {
	case "len":
		v := e.val(fr, args[0]).t()
		switch args[0].Type().Underlying().(type) {
		case *types.Slice:
			fr.vals[x] = Val{T: []*Term{tb.SLen(v)}}
		case *types.Basic:
			fr.vals[x] = Val{T: []*Term{tb.StrLen(v)}}
		case *types.Map:
			fr.vals[x] = Val{T: []*Term{tb.Ite(tb.Eq(v, tb.Int(0)), tb.Int(0), e.mapLen(st, v))}}
		default:
			c := tb.Fresh("len", "Int")
			e.assume(tb.True(), tb.Ge(c, tb.Int(0)))
			fr.vals[x] = Val{T: []*Term{c}}
		}
	case "cap":
		v := e.val(fr, args[0]).t()
		if v.sort == "Slice" {
			fr.vals[x] = Val{T: []*Term{tb.SCap(v)}}
		} else {
			fr.vals[x] = Val{T: []*Term{e.fresh("cap", x.Type())}}
		}
	case "append":
		e.appendBuiltin(fr, x, st)
	case "copy":
		dst := e.val(fr, args[0]).t()
		n := tb.Fresh("copied", "Int")
		var srcLen *Term
		if e.sortOf(args[1].Type()) == "Str" {
			srcLen = tb.StrLen(e.val(fr, args[1]).t())
		} else {
			srcLen = tb.SLen(e.val(fr, args[1]).t())
		}
		e.assume(tb.True(), tb.Eq(n, tb.Ite(tb.Lt(tb.SLen(dst), srcLen), tb.SLen(dst), srcLen)))
		et := args[0].Type().Underlying().(*types.Slice).Elem()
		reg := e.elemReg(et)
		h := e.reg(st, reg)
		newRow := tb.Fresh("copyrow", arraySort("Int", e.sortOf(et)))
		oldRow := tb.Select(h, tb.SRef(dst))
		// elements outside [off, off+n) are unchanged; inside they equal the source
		k := tb.BoundVar("ck", "Int")
		inside := tb.And(tb.Le(tb.SOff(dst), k), tb.Lt(k, tb.Add(tb.SOff(dst), n)))
		var srcElem *Term
		if e.sortOf(args[1].Type()) == "Slice" {
			src := e.val(fr, args[1]).t()
			srcRow := tb.Select(h, tb.SRef(src))
			srcElem = tb.Select(srcRow, tb.Add(tb.SOff(src), tb.Sub(k, tb.SOff(dst))))
		}
		body := tb.Imp(tb.Not(inside), tb.Eq(tb.Select(newRow, k), tb.Select(oldRow, k)))
		if srcElem != nil {
			body = tb.And(body, tb.Imp(inside, tb.Eq(tb.Select(newRow, k), srcElem)))
		}
		e.assume(tb.True(), tb.Forall([]*Term{k}, body))
		e.setReg(st, reg, tb.Store(h, tb.SRef(dst), newRow))
		fr.vals[x] = Val{T: []*Term{n}}
	case "delete":
		_, has, _ := e.mapRegs(args[0].Type())
		mref := e.val(fr, args[0]).t()
		k := e.val(fr, args[1]).t()
		hh := e.reg(st, has)
		e.setReg(st, has, tb.Store(hh, mref, tb.Store(tb.Select(hh, mref), k, tb.False())))
	case "min", "max":
		a, b := e.val(fr, args[0]).t(), e.val(fr, args[1]).t()
		if bi.Name() == "min" {
			fr.vals[x] = Val{T: []*Term{tb.Ite(tb.Lt(a, b), a, b)}}
		} else {
			fr.vals[x] = Val{T: []*Term{tb.Ite(tb.Lt(a, b), b, a)}}
		}
	case "recover":
		r := e.fresh("recovered", x.Type())
		switch e.recoverMode {
		case 1:
			r = e.zero(x.Type())
		case 2:
			e.assume(st.reach, tb.Not(tb.Eq(r, e.zero(x.Type()))))
		}
		fr.vals[x] = Val{T: []*Term{r}}
	case "close", "print", "println":
	case "panic":
		fr.panics = append(fr.panics, st.reach)
	default:
		e.note("builtin " + bi.Name())
		if x.Type() != nil {
			e.havocResults(fr, x, "bi_"+bi.Name())
		}
	}
}

// append(s, elems...) : Go semantics with the capacity decision made explicit.
func (e *Enc) appendBuiltin(fr *Frame, x *ssa.Call, st *State) {
	tb := e.tb
	args := x.Call.Args
	s := e.val(fr, args[0]).t()
	st0 := args[0].Type().Underlying().(*types.Slice)
	et := st0.Elem()
	reg := e.elemReg(et)
	var addLen *Term
	var add *Term
	if e.sortOf(args[1].Type()) == "Str" {
		addLen = tb.StrLen(e.val(fr, args[1]).t())
	} else {
		add = e.val(fr, args[1]).t()
		addLen = tb.SLen(add)
	}
	nl := tb.Add(tb.SLen(s), addLen)
	fits := tb.Le(nl, tb.SCap(s))
	h := e.reg(st, reg)
	// in-place branch: same backing, elements written behind len
	// growing branch: new backing (fresh ref), prefix copied
	newRef := e.newAlloc(et, true)
	newCap := tb.Fresh("appcap", "Int")
	e.assume(tb.True(), tb.Ge(newCap, nl))
	res := tb.Ite(fits, tb.MkSlice(tb.SRef(s), tb.SOff(s), nl, tb.SCap(s)), tb.MkSlice(newRef, tb.Int(0), nl, newCap))
	oldRow := tb.Select(h, tb.SRef(s))
	rowIn := tb.Fresh("approw_in", arraySort("Int", e.sortOf(et)))
	rowNew := tb.Fresh("approw_new", arraySort("Int", e.sortOf(et)))
	k := tb.BoundVar("ak", "Int")
	// single-element append (the common case, varargs array of length 1) is encoded without quantifiers for the written part
	single := add != nil && tb.SLen(add).op == "#i1"
	if single {
		v := tb.Select(tb.Select(h, tb.SRef(add)), tb.SOff(add))
		inPlace := tb.Store(oldRow, tb.Add(tb.SOff(s), tb.SLen(s)), v)
		// new backing: prefix equals old contents, then v
		e.assume(tb.True(), tb.Forall([]*Term{k}, tb.Imp(tb.And(tb.Le(tb.Int(0), k), tb.Lt(k, tb.SLen(s))),
			tb.Eq(tb.Select(rowNew, k), tb.Select(oldRow, tb.Add(tb.SOff(s), k))))))
		e.assume(tb.True(), tb.Eq(tb.Select(rowNew, tb.SLen(s)), v))
		h2 := tb.Ite(fits, tb.Store(h, tb.SRef(s), inPlace), tb.Store(h, newRef, rowNew))
		e.setReg(st, reg, h2)
		e.markEscaped(v, 0)
	} else {
		inRange := func(base *Term) *Term { return tb.And(tb.Le(base, k), tb.Lt(k, tb.Add(base, addLen))) }
		var srcAt func(i *Term) *Term
		if add != nil {
			srcRow := tb.Select(h, tb.SRef(add))
			srcAt = func(i *Term) *Term { return tb.Select(srcRow, tb.Add(tb.SOff(add), i)) }
		}
		baseIn := tb.Add(tb.SOff(s), tb.SLen(s))
		bodyIn := tb.Imp(tb.Not(inRange(baseIn)), tb.Eq(tb.Select(rowIn, k), tb.Select(oldRow, k)))
		if srcAt != nil {
			bodyIn = tb.And(bodyIn, tb.Imp(inRange(baseIn), tb.Eq(tb.Select(rowIn, k), srcAt(tb.Sub(k, baseIn)))))
		}
		e.assume(tb.True(), tb.Forall([]*Term{k}, bodyIn))
		bodyNew := tb.Imp(tb.And(tb.Le(tb.Int(0), k), tb.Lt(k, tb.SLen(s))), tb.Eq(tb.Select(rowNew, k), tb.Select(oldRow, tb.Add(tb.SOff(s), k))))
		if srcAt != nil {
			bodyNew = tb.And(bodyNew, tb.Imp(inRange(tb.SLen(s)), tb.Eq(tb.Select(rowNew, k), srcAt(tb.Sub(k, tb.SLen(s))))))
		}
		e.assume(tb.True(), tb.Forall([]*Term{k}, bodyNew))
		h2 := tb.Ite(fits, tb.Store(h, tb.SRef(s), rowIn), tb.Store(h, newRef, rowNew))
		e.setReg(st, reg, h2)
	}
	fr.vals[x] = Val{T: []*Term{res}}
}

// ---------- library functions ----------

type libSpec struct {
	writes bool
	apply  func(e *Enc, fr *Frame, x *ssa.Call, args []Val, st *State) bool
}

func libName(f *ssa.Function) string {
	s := f.String()
	return s
}

func libraryPure(f *ssa.Function) bool {
	// library functions that call back into user code or permute user data are not pure
	p := funcPkgPath(f)
	if p == "sort" || p == "slices" || strings.HasPrefix(p, "github.com/hneemann/iterator") || p == "sync" {
		return false
	}
	sig := f.Signature
	for i := 0; i < sig.Params().Len(); i++ {
		if _, ok := sig.Params().At(i).Type().Underlying().(*types.Signature); ok {
			return false
		}
	}
	return true
}

func opaqueErr(e *Enc, why string) *Term {
	v := e.tb.Fresh("liberr", "Int")
	return e.tb.Box("lib:error", "Int", v)
}

var libSpecs = map[string]*libSpec{
	"math.Floor": {apply: func(e *Enc, fr *Frame, x *ssa.Call, a []Val, st *State) bool {
		fr.vals[x] = Val{T: []*Term{e.tb.ToReal(e.tb.ToInt(a[0].t()))}}
		return true
	}},
	"math.Ceil": {apply: func(e *Enc, fr *Frame, x *ssa.Call, a []Val, st *State) bool {
		tb := e.tb
		fr.vals[x] = Val{T: []*Term{tb.Neg(tb.ToReal(tb.ToInt(tb.Neg(a[0].t()))))}}
		return true
	}},
	"math.Trunc": {apply: func(e *Enc, fr *Frame, x *ssa.Call, a []Val, st *State) bool {
		tb := e.tb
		xr := a[0].t()
		fr.vals[x] = Val{T: []*Term{tb.Ite(tb.Ge(xr, tb.Real(new(big.Rat))), tb.ToReal(tb.ToInt(xr)), tb.Neg(tb.ToReal(tb.ToInt(tb.Neg(xr)))))}}
		return true
	}},
	"math.Abs": {apply: func(e *Enc, fr *Frame, x *ssa.Call, a []Val, st *State) bool {
		tb := e.tb
		xr := a[0].t()
		fr.vals[x] = Val{T: []*Term{tb.Ite(tb.Ge(xr, tb.Real(new(big.Rat))), xr, tb.Neg(xr))}}
		return true
	}},
	"math.Max": {apply: func(e *Enc, fr *Frame, x *ssa.Call, a []Val, st *State) bool {
		tb := e.tb
		fr.vals[x] = Val{T: []*Term{tb.Ite(tb.Lt(a[0].t(), a[1].t()), a[1].t(), a[0].t())}}
		return true
	}},
	"math.Min": {apply: func(e *Enc, fr *Frame, x *ssa.Call, a []Val, st *State) bool {
		tb := e.tb
		fr.vals[x] = Val{T: []*Term{tb.Ite(tb.Lt(a[0].t(), a[1].t()), a[0].t(), a[1].t())}}
		return true
	}},
	"math.Sqrt": {apply: func(e *Enc, fr *Frame, x *ssa.Call, a []Val, st *State) bool {
		tb := e.tb
		r := tb.Func("math.sqrt", []string{"Real"}, "Real", a[0].t())
		e.assume(tb.True(), tb.Imp(tb.Ge(a[0].t(), tb.Real(new(big.Rat))), tb.And(tb.Ge(r, tb.Real(new(big.Rat))), tb.Eq(tb.Mul(r, r), a[0].t()))))
		fr.vals[x] = Val{T: []*Term{r}}
		return true
	}},
	"errors.New": {apply: func(e *Enc, fr *Frame, x *ssa.Call, a []Val, st *State) bool {
		fr.vals[x] = Val{T: []*Term{opaqueErr(e, "errors.New")}}
		return true
	}},
	"fmt.Errorf": {apply: func(e *Enc, fr *Frame, x *ssa.Call, a []Val, st *State) bool {
		fr.vals[x] = Val{T: []*Term{opaqueErr(e, "fmt.Errorf")}}
		return true
	}},
	"unicode/utf8.DecodeRuneInString": {apply: func(e *Enc, fr *Frame, x *ssa.Call, a []Val, st *State) bool {
		tb := e.tb
		s := a[0].t()
		r := tb.Func("utf8.rune", []string{"Str"}, "Int", s)
		n := tb.Func("utf8.size", []string{"Str"}, "Int", s)
		e.assume(tb.True(), tb.And(tb.Le(tb.Int(0), r), tb.Le(r, tb.Int(0x10FFFF)),
			tb.Imp(tb.Eq(tb.StrLen(s), tb.Int(0)), tb.And(tb.Eq(n, tb.Int(0)), tb.Eq(r, tb.Int(0xFFFD)))),
			tb.Imp(tb.Gt(tb.StrLen(s), tb.Int(0)), tb.And(tb.Le(tb.Int(1), n), tb.Le(n, tb.Int(4)), tb.Le(n, tb.StrLen(s))))))
		fr.vals[x] = Val{T: []*Term{r, n}}
		e.modelled("utf8.DecodeRuneInString: size 0 iff empty, else 1..4 and <= len (trusted)")
		return true
	}},
	"unicode/utf8.RuneLen": {apply: func(e *Enc, fr *Frame, x *ssa.Call, a []Val, st *State) bool {
		tb := e.tb
		n := tb.Func("utf8.runelen", []string{"Int"}, "Int", a[0].t())
		e.assume(tb.True(), tb.And(tb.Le(tb.Int(-1), n), tb.Le(n, tb.Int(4)), tb.Not(tb.Eq(n, tb.Int(0)))))
		fr.vals[x] = Val{T: []*Term{n}}
		return true
	}},
	"math/rand.Intn": {apply: func(e *Enc, fr *Frame, x *ssa.Call, a []Val, st *State) bool {
		tb := e.tb
		e.safetyObl(fr, st, "libpre", x.Pos(), isCallExpr, tb.Gt(a[0].t(), tb.Int(0)), NamedTerm{"n", a[0].t()})
		r := e.fresh("rand", x.Type())
		e.assume(tb.True(), tb.And(tb.Le(tb.Int(0), r), tb.Lt(r, a[0].t())))
		fr.vals[x] = Val{T: []*Term{r}}
		return true
	}},
}

func init() {
	idx := func(last bool) *libSpec {
		return &libSpec{apply: func(e *Enc, fr *Frame, x *ssa.Call, a []Val, st *State) bool {
			tb := e.tb
			r := e.fresh("stridx", x.Type())
			s := a[0].t()
			bound := tb.StrLen(s)
			if a[1].t().sort == "Str" {
				bound = tb.Sub(tb.StrLen(s), tb.StrLen(a[1].t()))
			} else {
				bound = tb.Sub(bound, tb.Int(1))
			}
			e.assume(tb.True(), tb.Or(tb.Eq(r, tb.Int(-1)), tb.And(tb.Le(tb.Int(0), r), tb.Le(r, bound))))
			fr.vals[x] = Val{T: []*Term{r}}
			e.modelled("strings.Index/LastIndex/IndexRune/IndexByte return -1 or an index at which the substring fits (trusted)")
			return true
		}}
	}
	for _, n := range []string{"strings.Index", "strings.LastIndex", "strings.IndexRune", "strings.IndexByte", "strings.LastIndexByte", "strings.IndexAny", "strings.LastIndexAny"} {
		libSpecs[n] = idx(false)
	}
}

func libSpecFor(f *ssa.Function) *libSpec {
	return libSpecs[libName(f)]
}

func (e *Enc) libraryCall(fr *Frame, x *ssa.Call, callee *ssa.Function, args []Val, st *State) {
	if spec := libSpecFor(callee); spec != nil && spec.apply != nil {
		if spec.apply(e, fr, x, args, st) {
			return
		}
	}
	e.havocResults(fr, x, "lib_"+callee.Name())
	if libraryPure(callee) {
		e.modelled("library functions without callbacks are trusted to assign nothing and not to panic: " + libName(callee))
		return
	}
	e.note("library call with callbacks/permutation: " + libName(callee))
	for _, a := range args {
		e.markEscaped(a.t(), 0)
	}
	e.havocAll(st, "lib "+callee.Name())
}

// ---------- closures ----------

func (e *Enc) makeClosure(fr *Frame, x *ssa.MakeClosure, st *State) {
	tb := e.tb
	fn := x.Fn.(*ssa.Function)
	once := e.onceCellsOf(fr.fn)
	for _, b := range x.Bindings { // whoever gets the function value can reach the captured variables
		if a, isAlloc := b.(*ssa.Alloc); isAlloc && once[a] != nil {
			continue // assigned once at entry and only read by the literals: nobody can change it
		}
		for _, t := range e.val(fr, b).T {
			e.markEscaped(t, 0)
		}
	}
	if e.yieldParam != nil {
		for _, b := range x.Bindings {
			if v := e.val(fr, b); len(v.T) == 1 && (v.T[0] == e.yieldParam || e.yieldCells[v.T[0]]) {
				if e.yieldLits == nil {
					e.yieldLits = map[*ssa.MakeClosure]bool{}
				}
				if _, seen := e.yieldLits[x]; !seen {
					e.yieldLits[x] = false
				}
			}
		}
	}
	c := tb.Fresh("clo_"+fn.Name(), "Fn")
	e.assume(tb.True(), tb.Not(tb.Eq(c, tb.Const("nilFn", "Fn"))))
	if e.yieldParam != nil {
		e.assume(tb.True(), tb.Not(tb.Eq(c, e.yieldParam))) // a function value created now is not the one passed in
	}
	fr.vals[x] = Val{T: []*Term{c}}
	if e.closureHook != nil {
		e.closureHook(fr, x, c, st)
	}
	e.closureAtCreation(fr, x, c, st)
}

// closureAtCreation: a function literal with a `closure-spec` in the contract of the enclosing unit receives its ghost
// attributes and is verified, where it is created, against the type contract it is declared to satisfy. The body runs
// from an arbitrary later heap in which the variables it captured still hold their values at creation.
func (e *Enc) closureAtCreation(fr *Frame, x *ssa.MakeClosure, c *Term, st *State) {
	con := fr.con
	if con == nil || len(con.closureSpecs) == 0 || fr.parent != nil {
		return
	}
	fn := x.Fn.(*ssa.Function)
	var spec *closureSpec
	for i := range con.closureSpecs {
		s := &con.closureSpecs[i]
		if strings.HasPrefix(s.anchor, "$bound:") {
			if fn.Synthetic != "" && strings.HasSuffix(fn.Name(), "$bound") && strings.TrimSuffix(fn.Name(), "$bound") == strings.TrimPrefix(s.anchor, "$bound:") {
				spec = s
			}
			continue
		}
		if fn.Syntax() != nil && e.L.anchorMatches(fn, s.anchor) {
			spec = s
		}
	}
	if spec == nil {
		// a literal without closure-spec in a unit that verifies its literals: nothing is known about the function
		// value, but the statelessness obligation is generated all the same (the claim is about every literal)
		if fn.Syntax() != nil {
			bad := capturedWrites(fn, 0)
			cond := e.tb.True()
			txt := "no captured variable is assigned (or has its address taken) inside the literal"
			if len(bad) > 0 {
				cond = e.tb.False()
				txt += "; offending: " + strings.Join(bad, ", ")
			}
			name := e.L.nodeText(fn.Syntax())
			if i := strings.Index(name, "{"); i >= 0 {
				name = strings.TrimSpace(name[i+1:])
			}
			if len(name) > 40 {
				name = name[:40]
			}
			q := e.oblige("closure", "literal:"+name+".captures-read-only", st, cond, x.Pos(), e.inputVals()...)
			q.Text = txt
		}
		return
	}
	tb := e.tb
	// the type contract
	pkg := e.L.typesPkg(con.pkg)
	var tc *FuncContract
	var ftype types.Type
	tpkg, tname := pkg, spec.typeName
	if i := strings.Index(tname, "."); i >= 0 { // imported type: funcGen.ParserFunc
		for _, imp := range pkg.Imports() {
			if imp.Name() == tname[:i] {
				tpkg = imp
			}
		}
		tname = tname[i+1:]
	}
	if obj := tpkg.Scope().Lookup(tname); obj != nil {
		if tn, ok := obj.(*types.TypeName); ok {
			ftype = tn.Type()
			tc = e.L.contracts.types[tpkg.Path()+"::"+tname]
		}
	}
	label := spec.anchor
	if tc == nil {
		e.contractError(fr, "closure-spec:"+label, fmt.Errorf("no type-contract %s", spec.typeName))
		return
	}
	// instantiate a generic type with the type arguments of the enclosing function's receiver / instantiation
	if n, ok := ftype.(*types.Named); ok && n.TypeParams().Len() > 0 {
		if ta := fr.fn.TypeArgs(); len(ta) == n.TypeParams().Len() {
			if inst, err := types.Instantiate(nil, n, ta, false); err == nil {
				ftype = inst
			}
		}
	}
	if n, ok := ftype.(*types.Named); ok && n.TypeParams().Len() > 0 && n.TypeArgs().Len() == 0 {
		// not instantiated yet: take the instance the literal is converted to
		if refs := x.Referrers(); refs != nil {
			for _, r := range *refs {
				if ct, isCT := r.(*ssa.ChangeType); isCT {
					if inst, isNamed := ct.Type().(*types.Named); isNamed && inst.Origin() == n.Origin() {
						ftype = inst
					}
				}
			}
		}
	}
	// ghost attributes: definitions for the new function value
	aenv := e.envAt(fr, st, nil)
	aenv.self = SV{t: c, typ: ftype}
	for _, at := range spec.attrs {
		tv, err1 := aenv.evalAny(at.target)
		vv, err2 := aenv.evalAny(at.value)
		if err1 != nil || err2 != nil {
			e.contractError(fr, "closure-spec:"+label, fmt.Errorf("attr %s: %v %v", at.text, err1, err2))
			continue
		}
		if vv.untyped && vv.t.sort != tv.t.sort {
			vv = aenv.convertUntyped(vv, tv.typ)
		}
		e.assume(st.reach, tb.Eq(tv.t, vv.t))
	}
	// captured variables are read-only inside the literal (and the literals nested in it): this is what the encoding
	// assumes ("captured variables keep the value they had when the literal was created") and what makes compiled code
	// stateless across evaluations. Checked on the SSA of the literal itself, also for trusted literals.
	{
		var bad []string
		if !(fn.Synthetic != "" && strings.HasSuffix(fn.Name(), "$bound")) { // a bound method captures its receiver by value
			bad = capturedWrites(fn, 0)
		}
		cond := tb.True()
		txt := "no captured variable is assigned (or has its address taken) inside the literal"
		if len(bad) > 0 {
			cond = tb.False()
			txt += "; offending: " + strings.Join(bad, ", ")
		}
		q := e.oblige("closure", label+".captures-read-only", st, cond, x.Pos(), e.inputVals()...)
		q.Text = txt
	}
	for _, cl := range spec.when {
		wenv := e.envAt(fr, st, nil)
		for i, fv := range fn.FreeVars {
			if _, have := wenv.vars[fv.Name()]; have || i >= len(x.Bindings) {
				continue
			}
			if pt, okp := fv.Type().Underlying().(*types.Pointer); okp {
				ad := e.addrOf(e.val(fr, x.Bindings[i]), pt.Elem())
				wenv.vars[fv.Name()] = SV{t: e.load(st, ad), typ: pt.Elem(), addr: ad}
			}
		}
		t, err := wenv.evalBool(cl.expr)
		if err != nil {
			e.contractError(fr, "closure-spec:"+label, err)
			continue
		}
		q := e.oblige("assert", cl.label, st, t, x.Pos(), e.inputVals()...)
		q.Text = "the literal `" + label + "` is created only when " + cl.text
	}
	if spec.trusted {
		e.modelled("TRUSTED function literal (ghost attributes assumed, body not verified): " + label)
		return
	}
	// entry state of a later invocation: everything unknown except (a) the captured variables, (b) objects allocated
	// during this call of the enclosing function (they are reachable only through what the literal captured and are not
	// written again by the enclosing function), (c) registers declared `immutable`
	// everything assumed while the body of the literal is encoded is visible only to the obligations of that body
	e.nscope++
	e.curScope = e.nscope
	wfSaved := make(map[int]bool, len(e.wfDone))
	for k, v := range e.wfDone {
		wfSaved[k] = v
	}
	defer func() {
		e.curScope = 0
		e.wfDone = wfSaved
	}()
	entry := st.clone()
	before := entry.clone()
	entry.heap = map[string]*Term{}
	entry.ep = e.newEpoch()
	entry.ep.cloParent = &before
	var regNames []string
	for n := range before.heap {
		regNames = append(regNames, n)
	}
	sort.Strings(regNames)
	for _, n := range regNames {
		r := e.regs[n]
		if r == nil || strings.HasPrefix(n, "W:") {
			continue
		}
		if e.immutableReg(n) {
			e.setReg(&entry, r, e.reg(&before, r))
			continue
		}
		is, _ := arrayElemSort(r.sort)
		if is != RefSort || !r.elem || !e.sortMentionsFn(r.typ, 0) {
			continue // only slices of compiled functions (argument lists, case tables) are carried into the literal
		}
		fresh := tb.BoundVar("cr", RefSort)
		nh := tb.Fresh("clo_entry_"+n, r.sort)
		e.assume(tb.True(), tb.Forall([]*Term{fresh}, tb.Imp(tb.Lt(fresh, tb.Int(0)), tb.Eq(tb.Select(nh, fresh), tb.Select(e.reg(&before, r), fresh)))))
		e.setReg(&entry, r, nh)
	}
	for n := range e.regs {
		if _, done := entry.heap[n]; !done && e.immutableReg(n) {
			e.setReg(&entry, e.regs[n], e.reg(&before, e.regs[n]))
		}
	}
	// (a) the captured variables themselves
	for _, b := range x.Bindings {
		bt := e.val(fr, b).t()
		for _, a := range e.allocs {
			if a.ref == bt {
				for _, r := range e.allocRegs(a) {
					e.setReg(&entry, r, tb.Store(e.reg(&entry, r), a.ref, tb.Select(e.reg(&before, r), a.ref)))
				}
			}
		}
	}
	guard := tb.Fresh("invoked_"+fn.Name(), "Bool")
	entry.reach = tb.And(st.reach, guard)
	sig := fn.Signature
	var args []Val
	for _, p := range fn.Params {
		a := e.fresh("cp_"+p.Name(), p.Type())
		args = append(args, Val{T: []*Term{a}})
	}
	var binds []Val
	for _, b := range x.Bindings {
		binds = append(binds, e.val(fr, b))
	}
	pre := entry.clone()
	fv := Val{T: []*Term{c}}
	renv := e.typeContractEnv(tc, sig, fv, ftype, args, nil, &entry, &pre)
	for _, cl := range tc.requires {
		t, err := renv.evalBool(cl.expr)
		if err != nil {
			e.contractError(fr, "closure-spec:"+label, err)
			continue
		}
		e.assume(entry.reach, t)
	}
	for _, cl := range tc.relies {
		t, err := renv.evalBool(cl.expr)
		if err != nil {
			e.contractError(fr, "closure-spec:"+label, err)
			continue
		}
		e.assume(entry.reach, t)
		e.modelled("rely condition of " + tc.key + " (assumed for every implementation, not checked at call sites): " + cl.text)
	}
	for _, cl := range spec.assumes {
		// evaluated over the captured variables in the state of the later invocation
		// variables denote the values they had when the literal was created; the heap is that of the later invocation
		cenv := e.envAt(fr, &before, nil)
		cenv.st = &entry
		// variables the enclosing function only mentions inside the literal (e.g. the variable of a type switch)
		for i, fv := range fn.FreeVars {
			if _, have := cenv.vars[fv.Name()]; have || i >= len(binds) {
				continue
			}
			if pt, okp := fv.Type().Underlying().(*types.Pointer); okp {
				ad := e.addrOf(binds[i], pt.Elem())
				cenv.vars[fv.Name()] = SV{t: e.load(&before, ad), typ: pt.Elem(), addr: ad}
			}
		}
		t, err := cenv.evalBool(cl.expr)
		if err != nil {
			e.contractError(fr, "closure-spec:"+label, err)
			continue
		}
		e.assume(entry.reach, t)
		e.modelled("closure-spec assumption (state captured by a function literal is not modified before it is invoked): " + cl.text)
	}
	savedCtx, savedStack := e.ctx, e.stack
	// loop invariants of the literal: a `closure <Func> anchor "<same anchor>"` block
	var lcon *FuncContract
	if own := e.L.contracts.funcs[con.pkg+"::"+con.key+"@"+spec.anchor]; own != nil {
		lcon = &FuncContract{pkg: own.pkg, key: own.key, kind: "closure-body", invs: own.invs, variants: own.variants, callbacks: own.callbacks, asserts: own.asserts, props: own.props, opts: map[string]string{}}
		own.used = true
	}
	res, out, sub := e.encodeFunc(fn, args, binds, entry, fr, lcon, nil)
	e.ctx, e.stack = savedCtx, savedStack
	_ = sub
	if len(res) == 0 {
		return
	}
	penv := e.typeContractEnv(tc, sig, fv, ftype, args, res, &out, &pre)
	for k, cl := range tc.ensures {
		t, err := penv.evalBool(cl.expr)
		if err != nil {
			e.contractError(fr, "closure-spec:"+label, err)
			continue
		}
		q := e.oblige("closure", fmt.Sprintf("%s.%s.%s", label, tc.key, clauseLabel("ensures", k, cl)), &out, t, x.Pos(), e.inputVals()...)
		q.Text = cl.text
	}
	for _, cl := range spec.returns {
		renv2 := e.typeContractEnv(tc, sig, fv, ftype, args, res, &out, &pre)
		cenv := e.envAt(fr, &before, nil)
		for i, fvv := range fn.FreeVars {
			if _, have := cenv.vars[fvv.Name()]; have || i >= len(binds) {
				continue
			}
			if pt, okp := fvv.Type().Underlying().(*types.Pointer); okp {
				ad := e.addrOf(binds[i], pt.Elem())
				cenv.vars[fvv.Name()] = SV{t: e.load(&before, ad), typ: pt.Elem(), addr: ad}
			}
		}
		for k, v := range cenv.vars {
			if _, have := renv2.vars[k]; !have {
				renv2.vars[k] = v
			}
		}
		if renv2.oldVars != nil {
			for k, v := range cenv.vars {
				if _, have := renv2.oldVars[k]; !have {
					renv2.oldVars[k] = v
				}
			}
		}
		t, err := renv2.evalBool(cl.expr)
		if err != nil {
			e.contractError(fr, "closure-spec:"+label, err)
			continue
		}
		q := e.oblige("closure", fmt.Sprintf("%s.%s", label, cl.label), &out, t, x.Pos(), e.inputVals()...)
		q.Text = cl.text
	}
	e.modelled("function literals are verified at their creation site; captured variables keep the value they had when the literal was created")
}

// ---------- environments for clauses inside a function ----------

// envAt builds the evaluation environment at a loop head: parameters plus source-level locals.
func (e *Enc) envAt(fr *Frame, st *State, head *ssa.BasicBlock) *evalEnv {
	env := &evalEnv{e: e, st: st, old: &fr.entry, vars: map[string]SV{}, bound: map[string]SV{}, fn: fr.fn}
	env.pkg = e.L.typesPkg(funcPkgPath(fr.fn))
	if fr.con != nil && fr.con.pkg != "" {
		if p := e.L.typesPkg(fr.con.pkg); p != nil {
			env.pkg = p
		}
	}
	env.oldVars = map[string]SV{}
	for _, p := range fr.fn.Params {
		if v, ok := fr.vals[p]; ok {
			env.vars[p.Name()] = SV{t: v.t(), typ: p.Type(), addr: v.Addr, pointee: v.Addr != nil}
			env.oldVars[p.Name()] = env.vars[p.Name()]
		}
	}
	// a parameter whose address is taken lives in a cell (`t0 = new T (p); *t0 = p`): its name denotes the cell's content
	if len(fr.fn.Blocks) > 0 {
		for _, in := range fr.fn.Blocks[0].Instrs {
			sto, ok := in.(*ssa.Store)
			if !ok {
				continue
			}
			p, isParam := sto.Val.(*ssa.Parameter)
			al, isAlloc := sto.Addr.(*ssa.Alloc)
			if !isParam || !isAlloc || al.Comment != p.Name() {
				continue
			}
			if v, ok := fr.vals[al]; ok {
				ad := e.addrOf(v, p.Type())
				env.vars[p.Name()] = SV{t: e.load(st, ad), typ: p.Type(), addr: ad}
			}
		}
	}
	for _, p := range fr.fn.FreeVars {
		if v, ok := fr.vals[p]; ok {
			if pt, ok := p.Type().Underlying().(*types.Pointer); ok {
				ad := e.addrOf(v, pt.Elem())
				env.oldVars[p.Name()] = SV{t: e.load(&fr.entry, ad), typ: pt.Elem(), addr: ad}
			} else {
				env.oldVars[p.Name()] = SV{t: v.t(), typ: p.Type()}
			}
		}
	}
	for _, p := range fr.fn.FreeVars {
		if v, ok := fr.vals[p]; ok {
			// captured variables are pointers to cells: expose the current content under the variable's name
			if pt, ok := p.Type().Underlying().(*types.Pointer); ok {
				ad := e.addrOf(v, pt.Elem())
				env.vars[p.Name()] = SV{t: e.load(st, ad), typ: pt.Elem(), addr: ad}
			} else {
				env.vars[p.Name()] = SV{t: v.t(), typ: p.Type()}
			}
		}
	}
	// locals: phis of this head by name first, then any named value that dominates the head
	if head != nil {
		for _, in := range head.Instrs {
			if phi, ok := in.(*ssa.Phi); ok && phi.Comment != "" {
				if v, ok := fr.vals[phi]; ok {
					if _, isParam := env.vars[phi.Comment]; !isParam || true {
						env.vars[phi.Comment] = SV{t: v.t(), typ: phi.Type()}
					}
					if phi.Comment == "rangeindex" {
						env.vars["rangeidx"] = SV{t: e.tb.Add(v.t(), e.tb.Int(1)), typ: types.Typ[types.Int]}
					}
				}
			}
		}
	}
	if head != nil {
		for _, in := range head.Instrs {
			if nx, ok := in.(*ssa.Next); ok && (nx.IsString || e.completeMapRange(nx)) {
				if c, ok := fr.rangeCount[nx.Iter.(*ssa.Range)]; ok {
					env.vars["rangeidx"] = SV{t: c, typ: types.Typ[types.Int]}
				}
			}
		}
	}
	at := head
	if at == nil {
		at = fr.cur
	}
	type cand struct {
		b  *ssa.BasicBlock
		sv SV
	}
	best := map[string]cand{}
	for _, b := range fr.fn.Blocks {
		if at != nil && !b.Dominates(at) {
			continue
		}
		if head != nil && b == head {
			continue
		}
		for _, in := range b.Instrs {
			if phi, isPhi := in.(*ssa.Phi); isPhi && phi.Comment != "" {
				if v, okv := fr.vals[phi]; okv {
					if prev, exists := best[phi.Comment]; !exists || prev.b == b || prev.b.Dominates(b) {
						best[phi.Comment] = cand{b: b, sv: SV{t: v.t(), typ: phi.Type()}}
					}
				}
				continue
			}
			x, ok := in.(*ssa.DebugRef)
			if !ok {
				continue
			}
			id, ok := x.Expr.(*ast.Ident)
			if !ok {
				continue
			}
			if obj, isVar := x.Object().(*types.Var); !isVar || obj.IsField() {
				continue // only source variables, not field names or other identifiers
			}
			v, okv := fr.vals[x.X]
			if !okv {
				continue
			}
			var sv SV
			cell := false
			if u, isLoad := x.X.(*ssa.UnOp); isLoad && !x.IsAddr && u.Op == token.MUL {
				// a load of the variable's own cell: the name denotes the cell's current content, not the value loaded then
				if al, isAlloc := u.X.(*ssa.Alloc); isAlloc && al.Comment == id.Name {
					if av, okA := fr.vals[al]; okA {
						ad := e.addrOf(av, x.X.Type())
						sv = SV{t: e.load(st, ad), typ: x.X.Type(), addr: ad}
						cell = true
					}
				}
			}
			if cell {
			} else if x.IsAddr {
				pt, okp := x.X.Type().Underlying().(*types.Pointer)
				if !okp {
					continue
				}
				ad := e.addrOf(v, pt.Elem())
				sv = SV{t: e.load(st, ad), typ: pt.Elem(), addr: ad}
			} else {
				sv = SV{t: v.t(), typ: x.X.Type(), addr: v.Addr, pointee: v.Addr != nil}
			}
			if prev, exists := best[id.Name]; exists && prev.b != b && !prev.b.Dominates(b) {
				continue // an earlier candidate is deeper in the dominator tree
			}
			best[id.Name] = cand{b: b, sv: sv}
		}
	}
	// variables that live in a cell (address taken: captured by a literal, named results, ...): the name denotes the
	// current content of the cell, whatever value a DebugRef recorded when it was assigned
	for _, b := range fr.fn.Blocks {
		if at != nil && !b.Dominates(at) {
			continue
		}
		for _, in := range b.Instrs {
			al, ok := in.(*ssa.Alloc)
			if !ok || al.Comment == "" || !token.IsIdentifier(al.Comment) {
				continue
			}
			av, okv := fr.vals[al]
			if !okv {
				continue
			}
			pt, okp := al.Type().Underlying().(*types.Pointer)
			if !okp {
				continue
			}
			if _, isParam := env.vars[al.Comment]; isParam {
				if _, cand := best[al.Comment]; !cand {
					// parameter cells are handled above
					continue
				}
			}
			if prev, exists := best[al.Comment]; exists && prev.b != b && !prev.b.Dominates(b) {
				continue
			}
			ad := e.addrOf(av, pt.Elem())
			best[al.Comment] = cand{b: b, sv: SV{t: e.load(st, ad), typ: pt.Elem(), addr: ad}}
		}
	}
	for name, c := range best {
		if _, fromPhi := e.headPhi(head, name); fromPhi {
			continue
		}
		if _, isParam := env.vars[name]; isParam {
			// parameters keep their entry binding unless the source reassigns them (then a DebugRef names the new value)
			if c.sv.t == env.vars[name].t {
				continue
			}
		}
		env.vars[name] = c.sv
	}
	return env
}

func (e *Enc) headPhi(head *ssa.BasicBlock, name string) (*ssa.Phi, bool) {
	if head == nil {
		return nil, false
	}
	for _, in := range head.Instrs {
		if phi, ok := in.(*ssa.Phi); ok && phi.Comment == name {
			return phi, true
		}
	}
	return nil, false
}

// inputVals lists the terms whose model values describe a failing input of the unit under verification.
func (e *Enc) inputVals() []NamedTerm {
	return e.inputs
}

// typeVarsOf binds the type parameters of a generic named type to the arguments of an instantiation.
func typeVarsOf(t types.Type) map[string]types.Type {
	n, ok := t.(*types.Named)
	if !ok || n.TypeArgs() == nil {
		return nil
	}
	m := map[string]types.Type{}
	tp := n.Origin().TypeParams()
	for i := 0; i < tp.Len() && i < n.TypeArgs().Len(); i++ {
		m[tp.At(i).Obj().Name()] = n.TypeArgs().At(i)
	}
	return m
}

// pureCallee: the called function value is a parameter or captured variable declared `pure` in the contract of the unit.
func (e *Enc) pureCallee(fr *Frame, v ssa.Value) (string, bool) {
	con := e.topCon()
	if fr.con != nil {
		con = fr.con
	}
	if con == nil || len(con.pureParams) == 0 {
		return "", false
	}
	switch x := v.(type) {
	case *ssa.Parameter:
		if con.pureParams[x.Name()] && x.Parent() == fr.fn && fr.parent == nil {
			return x.Name(), true
		}
	case *ssa.UnOp:
		if fv, ok := x.X.(*ssa.FreeVar); ok && con.pureParams[fv.Name()] {
			return fv.Name(), true
		}
	case *ssa.FreeVar:
		if con.pureParams[x.Name()] {
			return x.Name(), true
		}
	}
	return "", false
}

// sortMentionsFn: values of the type contain function values (directly or in struct fields).
func (e *Enc) sortMentionsFn(t types.Type, depth int) bool {
	if t == nil || depth > 3 {
		return false
	}
	switch u := t.Underlying().(type) {
	case *types.Signature:
		return true
	case *types.Struct:
		for i := 0; i < u.NumFields(); i++ {
			if e.sortMentionsFn(u.Field(i).Type(), depth+1) {
				return true
			}
		}
	}
	return false
}

// capturedWrites lists the captured variables of a function literal that the literal (or a literal nested in it) may
// assign: a free variable may only be loaded, have fields / elements of it loaded, or be captured again by a nested
// literal (checked recursively); every other use (store, address passed on) counts as a write.
func capturedWrites(fn *ssa.Function, depth int) []string {
	var bad []string
	if depth > 4 {
		return bad
	}
	var readOnly func(v ssa.Value, d int) bool
	readOnly = func(v ssa.Value, d int) bool {
		refs := v.Referrers()
		if refs == nil || d > 6 {
			return true
		}
		for _, r := range *refs {
			switch u := r.(type) {
			case *ssa.UnOp:
				if u.Op != token.MUL {
					return false
				}
				// the loaded value: no store through it (elements of a captured slice, fields behind a captured pointer)
				if !noStoreThrough(u, 0) {
					return false
				}
			case *ssa.FieldAddr:
				if u.X != v || !readOnly(u, d+1) {
					return false
				}
			case *ssa.IndexAddr:
				if u.X != v || !readOnly(u, d+1) {
					return false
				}
			case *ssa.DebugRef:
			case *ssa.MakeClosure:
				// captured again by a nested literal: checked below through the nested literal's own free variable
			default:
				return false
			}
		}
		return true
	}
	return capturedWritesOf(fn, nil, depth, readOnly)
}

// only: restrict the check to these free variables (nil: all). A nested literal is checked for the free variables that
// it captures from the free variables of the enclosing literal; its other free variables are locals of one invocation
// of the enclosing literal.
func capturedWritesOf(fn *ssa.Function, only map[*ssa.FreeVar]bool, depth int, readOnly func(v ssa.Value, d int) bool) []string {
	var bad []string
	if depth > 4 {
		return bad
	}
	for _, fv := range fn.FreeVars {
		if only != nil && !only[fv] {
			continue
		}
		if _, isPtr := fv.Type().Underlying().(*types.Pointer); !isPtr {
			continue // captured by value (bound method receivers): cannot be assigned
		}
		if !readOnly(fv, 0) {
			bad = append(bad, fv.Name())
		}
	}
	for _, b := range fn.Blocks {
		for _, in := range b.Instrs {
			mc, ok := in.(*ssa.MakeClosure)
			if !ok {
				continue
			}
			inner := mc.Fn.(*ssa.Function)
			sub := map[*ssa.FreeVar]bool{}
			for i, bv := range mc.Bindings {
				if pfv, isFV := bv.(*ssa.FreeVar); isFV && i < len(inner.FreeVars) && (only == nil || only[pfv]) {
					sub[inner.FreeVars[i]] = true
				}
			}
			for _, w := range capturedWritesOf(inner, sub, depth+1, readOnly) {
				bad = append(bad, w+" (in a nested literal)")
			}
		}
	}
	return bad
}

// noStoreThrough: the value (loaded from a captured variable) is not used as the base of a store: no element of a
// captured slice and no field behind a captured pointer is assigned by the literal itself.
func noStoreThrough(v ssa.Value, d int) bool {
	refs := v.Referrers()
	if refs == nil || d > 4 {
		return true
	}
	for _, r := range *refs {
		switch u := r.(type) {
		case *ssa.IndexAddr:
			if u.X == v && !addrNotStored(u, d+1) {
				return false
			}
		case *ssa.FieldAddr:
			if u.X == v && !addrNotStored(u, d+1) {
				return false
			}
		case *ssa.Slice:
			if u.X == v && !noStoreThrough(u, d+1) {
				return false
			}
		case *ssa.Store:
			if u.Addr == v {
				return false
			}
		}
	}
	return true
}

func addrNotStored(a ssa.Value, d int) bool {
	refs := a.Referrers()
	if refs == nil || d > 6 {
		return true
	}
	for _, r := range *refs {
		switch u := r.(type) {
		case *ssa.Store:
			if u.Addr == a {
				return false
			}
		case *ssa.IndexAddr:
			if u.X == a && !addrNotStored(u, d+1) {
				return false
			}
		case *ssa.FieldAddr:
			if u.X == a && !addrNotStored(u, d+1) {
				return false
			}
		}
	}
	return true
}

// ---------- function literals passed to iterating functions (callbacks as loop bodies) ----------

// callbackLoop encodes `Iter(func(k, v) bool { body })`, where the callee's contract says `iterates yield count N args
// A1, A2` and the caller's contract has `callback "<anchor>" invariant E` clauses for this call, like the loop
//
//	for cbidx := 0; cbidx < N; cbidx++ { if !body(A1, A2) { break } }
//
// with E as loop invariant over cbidx: E(0) is proved before the call, the body of the literal is encoded once for an
// arbitrary cbidx under E(cbidx) and must re-establish E(cbidx+1) when it returns true (and the `stopped` clauses when
// it returns false); afterwards E(N) or the stopped clauses hold. Returns false if the call does not have this shape.
func (e *Enc) callbackLoop(fr *Frame, x *ssa.Call, callee *ssa.Function, con *FuncContract, args []Val, st *State) bool {
	var names []string
	for _, p := range callee.Params {
		names = append(names, p.Name())
	}
	return e.callbackLoopG(fr, x, shortFuncName(callee), names, x.Call.Args, con, func(s, pre *State) *evalEnv {
		return e.envForCall(callee, args, nil, s, pre)
	}, st)
}

// callbackLoopG: the common part for static callees and interface methods. names / callArgs: the callee's parameter
// names and the SSA arguments in the same order (receiver first for methods); mkEnv builds the callee's environment.
func (e *Enc) callbackLoopG(fr *Frame, x *ssa.Call, calleeName string, names []string, callArgs []ssa.Value, con *FuncContract, mkEnv func(s, pre *State) *evalEnv, st *State) bool {
	tb := e.tb
	it := con.iter
	// which argument is the callback
	pos := -1
	for i, n := range names {
		if n == it.param {
			pos = i
		}
	}
	if pos < 0 || pos >= len(callArgs) {
		return false
	}
	var mc *ssa.MakeClosure
	v := callArgs[pos]
	wfr, wx := fr, x // the frame and call whose result is set (a wrapper inlined for the call, e.g. a bound method)
	for mc == nil {
		switch u := v.(type) {
		case *ssa.MakeClosure:
			mc = u
		case *ssa.ChangeType:
			v = u.X
		case *ssa.Parameter:
			// the callee is called from an inlined wrapper: the literal is an argument of the wrapper's call
			if fr.callSite == nil || fr.parent == nil {
				return false
			}
			k := -1
			for i, p := range fr.fn.Params {
				if p == u {
					k = i
				}
			}
			if k < 0 || k >= len(fr.callSite.Call.Args) || fr.callSite.Call.IsInvoke() {
				return false
			}
			v, x, fr = fr.callSite.Call.Args[k], fr.callSite, fr.parent
		default:
			return false
		}
	}
	if _, created := fr.vals[mc]; !created {
		return false
	}
	rangeFunc := mc.Fn.(*ssa.Function).Synthetic == "range-over-func yield"
	// the caller's clauses for this call
	site := e.srcText(fr.fn, x.Pos(), isCallExpr)
	if rangeFunc {
		// a range-over-func loop: the anchor is the loop header, `range <iterator expression>`
		site = e.srcText(fr.fn, mc.Fn.Pos(), func(n ast.Node) bool { _, ok := n.(*ast.RangeStmt); return ok })
		if i := strings.IndexAny(site, "{\n"); i >= 0 {
			site = site[:i]
		}
	}
	var cb *callbackSpec
	owner := fr.con
	for f := fr; f != nil && cb == nil; f = f.parent {
		if f.con == nil {
			continue
		}
		for _, c := range f.con.callbacks {
			if strings.Contains(site, c.anchor) {
				cb, owner = c, f.con
			}
		}
	}
	if cb == nil {
		return false
	}
	_ = owner
	body := mc.Fn.(*ssa.Function)
	if len(body.Params) != len(it.args) {
		e.contractError(fr, "callback:"+cb.anchor, fmt.Errorf("the literal takes %d parameters, the callee yields %d", len(body.Params), len(it.args)))
		return false
	}
	label := cb.anchor
	var binds []Val
	for _, b := range mc.Bindings {
		binds = append(binds, e.val(fr, b))
	}
	// the callee's own preconditions
	pre := st.clone()
	cenv0 := mkEnv(st, &pre)
	for k, cl := range con.requires {
		t, err := cenv0.evalBool(cl.expr)
		if err != nil {
			e.contractError(fr, "callpre:"+calleeName, err)
			continue
		}
		q := e.oblige("callpre", calleeName+"."+clauseLabel("requires", k, cl)+":"+label, st, t, x.Pos(), e.inputVals()...)
		q.Text = cl.text
	}
	nT, err := cenv0.evalAny(it.count)
	if err != nil || nT.t == nil || nT.t.sort != "Int" {
		e.contractError(fr, "callback:"+label, fmt.Errorf("count: %v", err))
		return false
	}
	n := nT.t
	invEnv := func(s *State, idx *Term) *evalEnv {
		env := e.envAt(fr, s, nil)
		env.vars["cbidx"] = SV{t: idx, typ: types.Typ[types.Int]}
		return env
	}
	// E(0) before the call
	for k, inv := range cb.invs {
		t, err := invEnv(st, tb.Int(0)).evalBool(inv.expr)
		if err != nil {
			e.contractError(fr, fmt.Sprintf("callback:%s.inv%d", label, k+1), err)
			continue
		}
		q := e.oblige("callback-entry", fmt.Sprintf("%s.inv%d", label, k+1), st, t, x.Pos(), e.inputVals()...)
		q.Text = inv.text
		e.addProps(q, fr.con, inv.props)
	}
	// what one call of the literal can write: its own stores (captured variables are cells) and its callees' frames
	ws := &writeSet{regs: map[string]bool{}, scope: fr.fn}
	cellWritten := map[int]bool{} // captured variables (cells) the literal assigns directly: havocked one by one
	var collect func(f *ssa.Function, depth int)
	collect = func(f *ssa.Function, depth int) {
		for _, b := range f.Blocks {
			for _, in := range b.Instrs {
				if sto, ok := in.(*ssa.Store); ok && depth == 0 {
					if fv, isFV := sto.Addr.(*ssa.FreeVar); isFV {
						for i, v := range body.FreeVars {
							if v == fv {
								cellWritten[i] = true
							}
						}
						continue
					}
				}
				e.instrWrites(in, ws, 0)
			}
		}
		if depth < 3 {
			for _, a := range f.AnonFuncs {
				collect(a, depth+1)
			}
		}
	}
	collect(body, 0)
	if ws.all {
		e.note("callback literal with unknown effect (whole heap havocked per call): " + label)
	}
	// range-over-func: the compiler's state variable of the loop (jump$N): 0 = ready for the next call of the body
	var jumpAddr *Addr
	if rangeFunc {
		for i, fv := range body.FreeVars {
			if strings.HasPrefix(fv.Name(), "jump$") && i < len(binds) {
				jumpAddr = &Addr{ref: binds[i].t(), root: types.Typ[types.Int]}
			}
		}
	}
	havocCells := func(s *State, why string) {
		for i := range body.FreeVars {
			if !cellWritten[i] || i >= len(binds) {
				continue
			}
			ref := binds[i].t()
			done := false
			for _, a := range e.allocs {
				if a.ref == ref {
					for _, r := range e.allocRegs(a) {
						_, es := arrayElemSort(r.sort)
						nv := tb.Fresh("hv_"+why+"_"+body.FreeVars[i].Name(), es)
						e.setReg(s, r, tb.Store(e.reg(s, r), ref, nv))
					}
					done = true
				}
			}
			if !done { // not a cell this unit allocated (a free variable of an enclosing literal): its register
				if pt, ok := body.FreeVars[i].Type().Underlying().(*types.Pointer); ok {
					r := e.ptrReg(pt.Elem())
					_, es := arrayElemSort(r.sort)
					e.setReg(s, r, tb.Store(e.reg(s, r), ref, tb.Fresh("hv_"+why+"_"+body.FreeVars[i].Name(), es)))
				}
			}
		}
	}
	e.modelled("function literals passed to an iterating function are verified as loop bodies (callee contract `iterates`): " + calleeName)
	if e.yieldLits != nil {
		if _, ok := e.yieldLits[mc]; ok {
			e.yieldLits[mc] = true
		}
	}
	// the enclosing function's frame (assigns clause) is carried through the iteration like through a loop
	frameRegs := e.loopFrameRegs(fr, ws)
	if len(frameRegs) > 0 {
		if f := e.loopFrame(fr, st, frameRegs); f != nil && !tb.isTrue(f) {
			e.oblige("callback-entry", label+".frame", st, f, x.Pos()).Text = "implicit invariant: the function's frame (assigns clause) holds before the iteration"
		}
	}
	// an arbitrary iteration
	if jumpAddr != nil {
		e.oblige("callback-entry", label+".range-ready", st, tb.Eq(e.rootRead(st, jumpAddr), tb.Int(0)), x.Pos()).Text = "range-over-func: the loop is ready for the first call of its body"
	}
	iterSt := st.clone()
	e.havocWrites(&iterSt, ws, "cb_"+sanitize(label))
	havocCells(&iterSt, "cb")
	e.havocYield(&iterSt)
	if jumpAddr != nil {
		e.assume(iterSt.reach, tb.Eq(e.rootRead(&iterSt, jumpAddr), tb.Int(0)))
	}
	if len(frameRegs) > 0 {
		if f := e.loopFrame(fr, &iterSt, frameRegs); f != nil {
			e.assume(iterSt.reach, f)
		}
	}
	idx := tb.Fresh("cbidx", "Int")
	e.assume(iterSt.reach, tb.And(tb.Le(tb.Int(0), idx), tb.Lt(idx, n)))
	for _, inv := range cb.invs {
		if t, err := invEnv(&iterSt, idx).evalBool(inv.expr); err == nil {
			e.assume(iterSt.reach, t)
		}
	}
	// the arguments of this call of the literal
	cenv := mkEnv(&iterSt, &pre)
	cenv.vars["cbidx"] = SV{t: idx, typ: types.Typ[types.Int]}
	var bargs []Val
	for i, ax := range it.args {
		sv, err := cenv.evalAny(ax)
		if err != nil {
			e.contractError(fr, "callback:"+label, err)
			return false
		}
		if sv.t.sort != e.sortOf(body.Params[i].Type()) {
			e.contractError(fr, "callback:"+label, fmt.Errorf("argument %d of the literal has sort %s, the callee yields %s", i, e.sortOf(body.Params[i].Type()), sv.t.sort))
			return false
		}
		e.assumeWF(tb.True(), body.Params[i].Type(), sv.t)
		bargs = append(bargs, Val{T: []*Term{sv.t}})
	}
	savedCtx, savedStack := e.ctx, e.stack
	resv, out, sub := e.encodeFunc(body, bargs, binds, iterSt, fr, nil, nil)
	e.ctx, e.stack = savedCtx, savedStack
	fr.panics = append(fr.panics, sub.panics...)
	cont := tb.True()
	if len(resv) == 1 && resv[0].sort == "Bool" {
		cont = resv[0]
	}
	contSt := out.clone()
	contSt.reach = tb.And(out.reach, cont)
	for k, inv := range cb.invs {
		t, err := invEnv(&contSt, tb.Add(idx, tb.Int(1))).evalBool(inv.expr)
		if err != nil {
			continue
		}
		q := e.oblige("callback-preserved", fmt.Sprintf("%s.inv%d", label, k+1), &contSt, t, x.Pos(), e.inputVals()...)
		q.Text = inv.text
		e.addProps(q, fr.con, inv.props)
	}
	if len(frameRegs) > 0 {
		if f := e.loopFrame(fr, &out, frameRegs); f != nil && !tb.isTrue(f) {
			e.oblige("callback-preserved", label+".frame", &out, f, x.Pos()).Text = "implicit invariant: the function's frame (assigns clause) is preserved by one call of the literal"
		}
	}
	if jumpAddr != nil {
		e.oblige("callback-preserved", label+".range-ready", &contSt, tb.Eq(e.rootRead(&contSt, jumpAddr), tb.Int(0)), x.Pos()).Text = "range-over-func: the loop is ready for the next call of its body"
	}
	stopSt := out.clone()
	stopSt.reach = tb.And(out.reach, tb.Not(cont))
	for k, cl := range cb.stopped {
		t, err := invEnv(&stopSt, idx).evalBool(cl.expr)
		if err != nil {
			e.contractError(fr, fmt.Sprintf("callback:%s.stopped%d", label, k+1), err)
			continue
		}
		e.oblige("callback-preserved", fmt.Sprintf("%s.stopped%d", label, k+1), &stopSt, t, x.Pos(), e.inputVals()...).Text = cl.text
	}
	// after the call: all iterations done, or stopped early
	e.havocWrites(st, ws, "cbdone_"+sanitize(label))
	havocCells(st, "cbdone")
	e.havocYield(st)
	if jumpAddr != nil {
		e.assume(st.reach, tb.Eq(e.rootRead(st, jumpAddr), tb.Int(0)))
	}
	e.assume(st.reach, tb.Le(tb.Int(0), n))
	if len(frameRegs) > 0 {
		if f := e.loopFrame(fr, st, frameRegs); f != nil {
			e.assume(st.reach, f)
		}
	}
	stopped := tb.Fresh("cbstopped", "Bool")
	doneInv, stopInv := tb.True(), tb.True()
	for _, inv := range cb.invs {
		if t, err := invEnv(st, n).evalBool(inv.expr); err == nil {
			doneInv = tb.And(doneInv, t)
		}
	}
	for _, cl := range cb.stopped {
		if t, err := invEnv(st, tb.Fresh("cbstopidx", "Int")).evalBool(cl.expr); err == nil {
			stopInv = tb.And(stopInv, t)
		}
	}
	if len(cb.stopped) == 0 && tb.isTrue(cont) {
		stopped = tb.False()
	}
	e.assume(st.reach, tb.Ite(stopped, stopInv, doneInv))
	if rangeFunc {
		// the loop was left from inside its body: the state is the one that call of the body left behind (the compiler's
		// state variable says how the loop was left, the clauses cannot name it)
		e.assume(tb.And(st.reach, stopped), stopSt.reach)
		done := st.clone()
		done.reach = tb.And(st.reach, tb.Not(stopped))
		left := stopSt.clone()
		left.reach = tb.And(st.reach, stopped)
		*st = e.mergeStates(done, left)
	}
	if len(e.tupleTypes(wx.Type())) > 0 {
		e.havocResults(wfr, wx, "r_"+sanitize(calleeName))
	} else {
		wfr.vals[wx] = Val{T: []*Term{tb.True()}}
	}
	return true
}

func (e *Enc) onceCellsOf(fn *ssa.Function) map[*ssa.Alloc]*ssa.Store {
	if e.onceCells == nil {
		e.onceCells = map[*ssa.Function]map[*ssa.Alloc]*ssa.Store{}
	}
	once, ok := e.onceCells[fn]
	if !ok {
		once = assignedOnceAtEntry(fn)
		e.onceCells[fn] = once
	}
	return once
}

// mayBeYield: a value of this static type can be the `yields` callback (same function signature)
func (e *Enc) mayBeYield(t types.Type) bool {
	if e.yieldType == nil {
		return true
	}
	return types.Identical(t.Underlying(), e.yieldType.Underlying())
}
