package main

import (
	"encoding/json"
	"fmt"
	"go/ast"
	"go/printer"
	"go/token"
	"go/types"
	"math/big"
	"os"
	"os/exec"
	"path/filepath"
	"sort"
	"strings"

	"golang.org/x/tools/go/ssa"
)

// ---- model values -> Go literals ----

// parseSexpNum parses SMT numerals: 5, (- 5), 3.0, (/ 3.0 4.0), (- (/ a b)), true, false.
func parseSexpNum(s string) (*big.Rat, bool) {
	s = strings.TrimSpace(s)
	if strings.HasPrefix(s, "(") && strings.HasSuffix(s, ")") {
		inner := strings.TrimSpace(s[1 : len(s)-1])
		parts := splitSexp(inner)
		if len(parts) == 2 && parts[0] == "-" {
			r, ok := parseSexpNum(parts[1])
			if !ok {
				return nil, false
			}
			return new(big.Rat).Neg(r), true
		}
		if len(parts) == 3 && parts[0] == "/" {
			a, ok1 := parseSexpNum(parts[1])
			b, ok2 := parseSexpNum(parts[2])
			if !ok1 || !ok2 || b.Sign() == 0 {
				return nil, false
			}
			return new(big.Rat).Quo(a, b), true
		}
		return nil, false
	}
	s = strings.TrimSuffix(s, "?")
	r, ok := new(big.Rat).SetString(s)
	return r, ok
}

func splitSexp(s string) []string {
	var parts []string
	depth, start := 0, -1
	for i, c := range s {
		switch {
		case c == '(':
			if depth == 0 && start < 0 {
				start = i
			}
			depth++
		case c == ')':
			depth--
			if depth == 0 {
				parts = append(parts, s[start:i+1])
				start = -1
			}
		case c == ' ' || c == '\n' || c == '\t':
			if depth == 0 && start >= 0 {
				parts = append(parts, s[start:i])
				start = -1
			}
		default:
			if start < 0 {
				start = i
			}
		}
	}
	if start >= 0 {
		parts = append(parts, s[start:])
	}
	return parts
}

func goLiteral(val string, t types.Type) (string, bool) {
	b, ok := t.Underlying().(*types.Basic)
	if !ok {
		return "", false
	}
	switch {
	case b.Info()&types.IsBoolean != 0:
		if val == "true" || val == "false" {
			return val, true
		}
	case b.Info()&types.IsInteger != 0:
		r, ok := parseSexpNum(val)
		if !ok || !r.IsInt() {
			return "", false
		}
		lo, hi, ok := intRange(b)
		if ok && (r.Num().Cmp(lo) < 0 || r.Num().Cmp(hi) >= 0) {
			return "", false
		}
		return fmt.Sprintf("%s(%s)", types.TypeString(t, qualifierNone), r.Num().String()), true
	case b.Info()&types.IsFloat != 0:
		r, ok := parseSexpNum(val)
		if !ok {
			return "", false
		}
		f, _ := r.Float64()
		return fmt.Sprintf("float64(%s)", fmtFloat(f)), true
	}
	return "", false
}

func fmtFloat(f float64) string {
	s := fmt.Sprintf("%v", f)
	if !strings.ContainsAny(s, ".eE") {
		s += ".0"
	}
	return s
}

func qualifierNone(p *types.Package) string { return "" }

// ---- spec clause -> Go source ----

const replayPrelude = `
func implies_(a, b bool) bool { return !a || b }
func iff_(a, b bool) bool     { return a == b }
func forall_(lo, hi int, f func(int) bool) bool {
	for k := lo; k < hi; k++ {
		if !f(k) {
			return false
		}
	}
	return true
}
func exists_(lo, hi int, f func(int) bool) bool {
	for k := lo; k < hi; k++ {
		if f(k) {
			return true
		}
	}
	return false
}
func ite[T any](c bool, a, b T) T {
	if c {
		return a
	}
	return b
}
func replayPanicText(r any) string {
	switch x := r.(type) {
	case error:
		return x.Error()
	case string:
		return x
	}
	return ""
}
func replayContains(s, sub string) bool {
	for i := 0; i+len(sub) <= len(s); i++ {
		if s[i:i+len(sub)] == sub {
			return true
		}
	}
	return false
}
`

// clauseToGo renders a spec expression as Go source. old(E) sub-expressions are hoisted into variables
// evaluated before the call; it fails if an old() mentions a quantified variable or an unsupported form.
func clauseToGo(ex ast.Expr) (src string, olds []string, ok bool) {
	bound := map[string]bool{}
	ok = true
	var rewrite func(n ast.Expr) ast.Expr
	rewrite = func(n ast.Expr) ast.Expr {
		switch v := n.(type) {
		case *ast.CallExpr:
			if id, isId := v.Fun.(*ast.Ident); isId {
				switch id.Name {
				case "old":
					usesBound := false
					ast.Inspect(v.Args[0], func(m ast.Node) bool {
						if i, ok := m.(*ast.Ident); ok && bound[i.Name] {
							usesBound = true
						}
						return true
					})
					if usesBound {
						// old(x[k]) with bound k: snapshot the whole indexed base instead
						if ix, isIx := v.Args[0].(*ast.IndexExpr); isIx {
							baseUses := false
							ast.Inspect(ix.X, func(m ast.Node) bool {
								if i, ok := m.(*ast.Ident); ok && bound[i.Name] {
									baseUses = true
								}
								return true
							})
							if !baseUses {
								name := fmt.Sprintf("old_%d", len(olds))
								olds = append(olds, fmt.Sprintf("%s := append(%s[:0:0], %s...)", name, exprStr(ix.X), exprStr(ix.X)))
								return &ast.IndexExpr{X: ast.NewIdent(name), Index: rewrite(ix.Index)}
							}
						}
						ok = false
						return n
					}
					name := fmt.Sprintf("old_%d", len(olds))
					olds = append(olds, fmt.Sprintf("%s := %s", name, exprStr(v.Args[0])))
					return ast.NewIdent(name)
				case "forall_", "exists_":
					fl := v.Args[2].(*ast.FuncLit)
					nm := fl.Type.Params.List[0].Names[0].Name
					bound[nm] = true
					ret := fl.Body.List[0].(*ast.ReturnStmt)
					ret.Results[0] = rewrite(ret.Results[0])
					delete(bound, nm)
					v.Args[0], v.Args[1] = rewrite(v.Args[0]), rewrite(v.Args[1])
					return v
				case "forallT_", "existsT_", "typeis", "unbox", "box", "fresh", "calleefresh", "alive0", "ref", "off", "floor":
					ok = false
					return n
				}
			}
			for i := range v.Args {
				v.Args[i] = rewrite(v.Args[i])
			}
			return v
		case *ast.BinaryExpr:
			v.X, v.Y = rewrite(v.X), rewrite(v.Y)
			return v
		case *ast.UnaryExpr:
			v.X = rewrite(v.X)
			return v
		case *ast.ParenExpr:
			v.X = rewrite(v.X)
			return v
		case *ast.IndexExpr:
			v.X, v.Index = rewrite(v.X), rewrite(v.Index)
			return v
		case *ast.SelectorExpr:
			v.X = rewrite(v.X)
			return v
		}
		return n
	}
	// work on a fresh parse so that the contract's own AST is not modified
	cp, err := parseSpecExpr(exprStrSpec(ex))
	if err != nil {
		return "", nil, false
	}
	out := rewrite(cp)
	return exprStr(out), olds, ok
}

func exprStr(x ast.Expr) string {
	var sb strings.Builder
	_ = printer.Fprint(&sb, token.NewFileSet(), x)
	return sb.String()
}

// exprStrSpec prints an already rewritten spec AST back to Go syntax (which parseSpecExpr accepts unchanged).
func exprStrSpec(x ast.Expr) string { return exprStr(x) }

// ---- replay of a function-level obligation ----

type replayPlan struct {
	pkgDir  string // directory of the package inside the repo
	pkgName string
	src     string
}

func findContractClause(con *FuncContract, label string) *clause {
	for k := range con.ensures {
		if clauseLabel("ensures", k, con.ensures[k]) == label {
			return &con.ensures[k]
		}
	}
	return nil
}

// buildArgs emits Go statements constructing the function's arguments from the model.
func buildArgs(fn *ssa.Function, model map[string]string) (stmts []string, names []string, ok bool) {
	qual := func(p *types.Package) string {
		if p.Path() == funcPkgPath(fn) {
			return ""
		}
		return p.Name()
	}
	var keys []string
	for k := range model {
		keys = append(keys, k)
	}
	sort.Strings(keys)
	for _, p := range fn.Params {
		name := p.Name()
		names = append(names, name)
		switch u := p.Type().Underlying().(type) {
		case *types.Basic:
			lit, ok := goLiteral(model[name], p.Type())
			if !ok {
				return nil, nil, false
			}
			stmts = append(stmts, fmt.Sprintf("var %s %s = %s", name, types.TypeString(p.Type(), qual), lit))
		case *types.Pointer:
			if _, isStruct := u.Elem().Underlying().(*types.Struct); !isStruct {
				return nil, nil, false
			}
			stmts = append(stmts, fmt.Sprintf("%s := new(%s)", name, types.TypeString(u.Elem(), qual)))
			if !assignFields(name, u.Elem(), model, keys, &stmts, qual) {
				return nil, nil, false
			}
		case *types.Struct:
			stmts = append(stmts, fmt.Sprintf("var %s %s", name, types.TypeString(p.Type(), qual)))
			if !assignFields(name, p.Type(), model, keys, &stmts, qual) {
				return nil, nil, false
			}
		case *types.Slice:
			n, okn := parseSexpNum(model["len("+name+")"])
			if !okn || !n.IsInt() || n.Num().Int64() > 1<<16 || n.Sign() < 0 {
				return nil, nil, false
			}
			stmts = append(stmts, fmt.Sprintf("%s := make(%s, %d)", name, types.TypeString(p.Type(), qual), n.Num().Int64()))
		default:
			return nil, nil, false
		}
	}
	return stmts, names, true
}

func assignFields(prefix string, t types.Type, model map[string]string, keys []string, stmts *[]string, qual types.Qualifier) bool {
	su := t.Underlying().(*types.Struct)
	for i := 0; i < su.NumFields(); i++ {
		f := su.Field(i)
		path := prefix + "." + f.Name()
		switch ft := f.Type().Underlying().(type) {
		case *types.Basic:
			if v, ok := model[path]; ok {
				lit, ok := goLiteral(v, f.Type())
				if !ok {
					return false
				}
				*stmts = append(*stmts, fmt.Sprintf("%s = %s", path, lit))
			}
		case *types.Struct:
			if !assignFields(path, f.Type(), model, keys, stmts, qual) {
				return false
			}
		case *types.Slice:
			if v, ok := model["len("+path+")"]; ok {
				n, okn := parseSexpNum(v)
				if !okn || !n.IsInt() || n.Num().Int64() > 1<<16 || n.Sign() < 0 {
					return false
				}
				*stmts = append(*stmts, fmt.Sprintf("%s = make(%s, %d)", path, types.TypeString(f.Type(), qual), n.Num().Int64()))
			}
			_ = ft
		}
	}
	return true
}

// replayTemplates: witness templates per function (obligation family) for obligations whose failing state is not
// a function input (loop iterations, ghost state). They build an end-to-end test from the model.
var replayTemplates = map[string]func(o *oblOutcome) (pkgRel, src string, ok bool){}

func tryReplay(L *Loaded, opt runOpts, id string, o *oblOutcome) *replayOutcome {
	if o == nil || o.unit == nil || o.unit.fn == nil {
		return nil
	}
	if o.unit.entry != nil {
		rel, src, ok := entryReplay(o)
		if !ok {
			return &replayOutcome{Why: "the model of this table entry could not be turned into a program (non-scalar operands)"}
		}
		ro := &replayOutcome{Attempted: true, Test: src, Pkg: rel}
		out, confirmed := runReplayTest(opt, rel, src)
		ro.Output, ro.Confirmed = out, confirmed
		if !confirmed {
			ro.Why = "the program built from the model did not fail on the real code"
		}
		return ro
	}
	if tpl, ok := replayTemplates[o.unit.Func]; ok {
		rel, src, ok := tpl(o)
		if !ok {
			return &replayOutcome{Why: "the witness template of this obligation family could not be instantiated from the model"}
		}
		ro := &replayOutcome{Attempted: true, Test: src, Pkg: rel}
		out, confirmed := runReplayTest(opt, rel, src)
		ro.Output, ro.Confirmed = out, confirmed
		if !confirmed {
			ro.Why = "the witness built from the model did not fail on the real code"
		}
		return ro
	}
	fn := o.unit.fn
	if fn.Parent() != nil || len(fn.TypeArgs()) > 0 {
		return &replayOutcome{Why: "closures and generic instantiations are not replayed by the generic template"}
	}
	if !k2Kinds[o.q.Kind] && o.q.Kind != "panics-never" && o.q.Kind != "ensures" {
		// the generic template can observe a panic (safety obligations) or evaluate a postcondition after the call;
		// it has no way to observe an intermediate assertion, a loop invariant, a call precondition or a type invariant
		return &replayOutcome{Why: "obligations of kind " + o.q.Kind + " are not observable by the generic replay template"}
	}
	stmts, names, ok := buildArgs(fn, o.r.Model)
	if !ok {
		return &replayOutcome{Why: "model could not be turned into Go arguments (non-scalar inputs or values outside the machine range)"}
	}
	var body strings.Builder
	for _, s := range stmts {
		body.WriteString("\t" + s + "\n")
	}
	// call expression
	var call string
	args := names
	if fn.Signature.Recv() != nil {
		call = fmt.Sprintf("%s.%s(%s)", names[0], fn.Name(), strings.Join(args[1:], ", "))
	} else {
		call = fmt.Sprintf("%s(%s)", fn.Name(), strings.Join(args, ", "))
	}
	nres := fn.Signature.Results().Len()
	var resNames []string
	for i := 0; i < nres; i++ {
		resNames = append(resNames, fmt.Sprintf("result%d", i))
	}
	check := ""
	kind := o.q.Kind
	if kind == "ensures" && o.unit.con != nil {
		cl := findContractClause(o.unit.con, o.q.Label)
		if cl == nil {
			return &replayOutcome{Why: "clause not found"}
		}
		src, olds, ok := clauseToGo(cl.expr)
		if !ok {
			return &replayOutcome{Why: "clause uses specification-only forms that have no executable meaning"}
		}
		for _, s := range olds {
			body.WriteString("\t" + s + "\n")
		}
		check = src
	}
	body.WriteString("\tdefer func() {\n\t\tif r := recover(); r != nil {\n")
	if k2Kinds[kind] || kind == "panics-never" {
		// only the panic the obligation is about confirms it (a nil dereference caused by the partial arguments of the
		// replay does not confirm an index obligation)
		want := map[string]string{"index": "index out of range", "slice": "slice bounds out of range", "div0": "divide by zero",
			"shift": "negative shift amount", "typeassert": "interface conversion", "makeslice": "makeslice", "nilmap": "nil map",
			"nilfunc": "nil pointer dereference", "nilinvoke": "nil pointer dereference"}[kind]
		if want != "" {
			body.WriteString("\t\t\tif msg := replayPanicText(r); !replayContains(msg, " + fmt.Sprintf("%q", want) + ") {\n\t\t\t\tt.Logf(\"replay inconclusive: a different panic: %v\", r)\n\t\t\t\treturn\n\t\t\t}\n")
		}
		body.WriteString("\t\t\tt.Fatalf(\"REPLAY-CONFIRMED: panic: %v\", r)\n")
	} else {
		// a panic says nothing about a postcondition: the arguments built from the model are partial (everything
		// the model does not mention is a zero value), so a panic may just be a violated implicit precondition
		body.WriteString("\t\t\tt.Logf(\"replay inconclusive: panic before the postcondition could be evaluated: %v\", r)\n")
	}
	body.WriteString("\t\t}\n\t}()\n")
	if nres > 0 {
		body.WriteString("\t" + strings.Join(resNames, ", ") + " := " + call + "\n")
		for _, r := range resNames {
			body.WriteString("\t_ = " + r + "\n")
		}
		if nres == 1 {
			body.WriteString("\tresult := result0\n\t_ = result\n")
		}
	} else {
		body.WriteString("\t" + call + "\n")
	}
	if check != "" {
		body.WriteString("\tif !(" + check + ") {\n\t\tt.Fatalf(\"REPLAY-CONFIRMED: clause violated: %s\", " + fmt.Sprintf("%q", o.q.Text) + ")\n\t}\n")
	}
	pkg := fn.Pkg.Pkg
	imports := ""
	src := fmt.Sprintf("package %s\n\nimport \"testing\"\n%s\n%s\nfunc TestVerifReplay(t *testing.T) {\n%s}\n", pkg.Name(), imports, replayPrelude, body.String())
	rel := strings.TrimPrefix(strings.TrimPrefix(pkg.Path(), modPath), "/")
	ro := &replayOutcome{Attempted: true, Test: src, Pkg: rel}
	out, confirmed := runReplayTest(opt, rel, src)
	ro.Output = out
	ro.Confirmed = confirmed
	if !confirmed {
		ro.Why = "the test built from the model did not fail on the real code (model may rely on real/mathematical arithmetic)"
	}
	return ro
}

func runReplayFile(path string, opt runOpts) int {
	b, err := os.ReadFile(path)
	if err != nil {
		fmt.Fprintln(os.Stderr, err)
		return 2
	}
	var rf replayFile
	if err := json.Unmarshal(b, &rf); err != nil {
		fmt.Fprintln(os.Stderr, err)
		return 2
	}
	fmt.Printf("property=%s obligation=%s status=%s\n", rf.Property, rf.Obligation, rf.Status)
	if rf.Replay == nil || rf.Replay.Test == "" {
		fmt.Println("no executable replay recorded (no-failing-input-found); solver output / reason:")
		fmt.Println(rf.Note)
		fmt.Println(rf.SolverOut)
		return 1
	}
	out, confirmed := runReplayTest(opt, rf.Replay.Pkg, rf.Replay.Test)
	fmt.Println(out)
	if confirmed {
		fmt.Printf("VIOLATION property=%s replay=%s\n", rf.Property, path)
		return 1
	}
	return 0
}

// runReplayTest injects the test into the package with -overlay and runs it against the current working tree.
func runReplayTest(opt runOpts, pkgRel, src string) (string, bool) {
	dir, err := os.MkdirTemp("", "govc-replay")
	if err != nil {
		return err.Error(), false
	}
	defer os.RemoveAll(dir)
	testFile := filepath.Join(dir, "verif_replay_test.go")
	if err := os.WriteFile(testFile, []byte(src), 0o644); err != nil {
		return err.Error(), false
	}
	target := filepath.Join(opt.repo, pkgRel, "verif_replay_test.go")
	ov := map[string]any{"Replace": map[string]string{target: testFile}}
	ob, _ := json.Marshal(ov)
	ovFile := filepath.Join(dir, "ov.json")
	_ = os.WriteFile(ovFile, ob, 0o644)
	pkgArg := "./" + pkgRel
	if pkgRel == "" {
		pkgArg = "."
	}
	cmd := exec.Command("go", "test", "-overlay", ovFile, "-vet=off", "-count=1", "-timeout", "60s", "-run", "^TestVerifReplay$", pkgArg)
	cmd.Dir = opt.repo
	cmd.Env = append(os.Environ(), "GOFLAGS=-mod=mod", "GOPROXY=off")
	out, _ := cmd.CombinedOutput()
	s := string(out)
	if len(s) > 4000 {
		s = s[:4000]
	}
	return s, strings.Contains(s, "REPLAY-CONFIRMED")
}

func extraJobsImpl(L *Loaded, id string, opt runOpts) []unitJob {
	return append(lawJobs(L, id, opt), flagJobs(L, id, opt)...)
}

func modelRune(o *oblOutcome) (int64, bool) {
	v, ok := o.r.Model["range-rune"]
	if !ok {
		return 0, false
	}
	r, ok := parseSexpNum(v)
	if !ok || !r.IsInt() {
		return 0, false
	}
	n := r.Num().Int64()
	if n < 0 || n > 0x10FFFF || (n >= 0xD800 && n < 0xE000) {
		return 0, false
	}
	return n, true
}

func init() {
	// C17: the string consisting of the offending rune must survive Export -> encoding/json
	replayTemplates["value/export.jsonExporter.String"] = func(o *oblOutcome) (string, string, bool) {
		r, ok := modelRune(o)
		if !ok {
			return "", "", false
		}
		src := fmt.Sprintf(`package export

import (
	"bytes"
	"encoding/json"
	"testing"
)

func TestVerifReplay(t *testing.T) {
	s := "a" + string(rune(%d)) + "b"
	var b bytes.Buffer
	j := jsonExporter{b: &b}
	if err := j.String(s); err != nil {
		t.Fatalf("REPLAY-CONFIRMED: error %%v", err)
	}
	var out string
	if err := json.Unmarshal(b.Bytes(), &out); err != nil {
		t.Fatalf("REPLAY-CONFIRMED: not valid JSON: %%q: %%v", b.String(), err)
	}
	if out != s {
		t.Fatalf("REPLAY-CONFIRMED: decodes to %%q, want %%q", out, s)
	}
}
`, r)
		return "value/export", src, true
	}
}

var tableOperators = map[string]string{"Equal": "=", "Less": "<", "Add": "+", "Sub": "-", "Mul": "*", "Div": "/", "Mod": "%", "Left": "<<", "Right": ">>",
	"Pow": "^", "And": "&", "Or": "|", "Neg": "-", "Not": "!"}

// modelValue turns an Iface model value like (box_3 5) into a Go expression of package value.
func modelValue(o *oblOutcome, v string) (string, bool) {
	v = strings.TrimSpace(v)
	if !strings.HasPrefix(v, "(box_") {
		return "", false
	}
	parts := splitSexp(v[1 : len(v)-1])
	if len(parts) != 2 {
		return "", false
	}
	key := o.unit.ctorKeys[parts[0]]
	switch {
	case strings.HasSuffix(key, "/value.Int"):
		r, ok := parseSexpNum(parts[1])
		if !ok || !r.IsInt() || !r.Num().IsInt64() {
			return "", false
		}
		return "Int(" + r.Num().String() + ")", true
	case strings.HasSuffix(key, "/value.Float"):
		r, ok := parseSexpNum(parts[1])
		if !ok {
			return "", false
		}
		f, _ := r.Float64()
		return "Float(" + fmtFloat(f) + ")", true
	case strings.HasSuffix(key, "/value.Bool"):
		if parts[1] == "true" || parts[1] == "false" {
			return "Bool(" + parts[1] + ")", true
		}
	case strings.HasSuffix(key, "/value.String"):
		return "String(\"x\")", true
	}
	return "", false
}

// entryReplay: the failing table entry is reached through a program evaluated by the real generator.
func entryReplay(o *oblOutcome) (string, string, bool) {
	t := o.unit.entry
	if !strings.HasSuffix(funcPkgPath(t.site), "/value") {
		return "", "", false
	}
	var vals []string
	get := func(name string) bool {
		mv, ok := o.r.Model[name]
		if !ok {
			return false
		}
		g, ok := modelValue(o, mv)
		if !ok {
			return false
		}
		vals = append(vals, g)
		return true
	}
	var prog string
	argName := func(i int) string { return fmt.Sprintf("a%d", i) }
	switch t.kind {
	case "binop", "op":
		opn := t.name
		if t.kind == "binop" {
			opn = tableOperators[t.table]
		}
		if opn == "" || !get("a") || !get("b") {
			return "", "", false
		}
		prog = "a0 " + opn + " a1"
	case "unop":
		opn := tableOperators[t.table]
		if opn == "" || !get("a") {
			return "", "", false
		}
		prog = opn + "a0"
	case "static", "method":
		n := t.args
		if t.kind == "method" && n >= 0 {
			n++
		}
		if n < 0 {
			r, ok := parseSexpNum(o.r.Model["stack.size"])
			if !ok || !r.IsInt() {
				return "", "", false
			}
			n = int(r.Num().Int64())
		}
		if n > 4 {
			return "", "", false
		}
		for i := 0; i < n; i++ {
			if !get(fmt.Sprintf("stack[%d]", i)) {
				return "", "", false
			}
		}
		var as []string
		for i := 0; i < n; i++ {
			as = append(as, argName(i))
		}
		name := strings.Split(t.name, "~")[0]
		if t.kind == "static" {
			prog = name + "(" + strings.Join(as, ", ") + ")"
		} else {
			if n == 0 {
				return "", "", false
			}
			prog = as[0] + "." + name + "(" + strings.Join(as[1:], ", ") + ")"
		}
	default:
		return "", "", false
	}
	var names []string
	for i := range vals {
		names = append(names, fmt.Sprintf("%q", argName(i)))
	}
	src := fmt.Sprintf(`package value

import (
	"strings"
	"testing"
)

func isGoPanic(msg string) bool {
	for _, frag := range []string{"runtime error", "panic", "interface conversion", "index out of range", "nil pointer", "divide by zero", "negative shift", "slice bounds", "invalid argument to Intn"} {
		if strings.Contains(msg, frag) {
			return true
		}
	}
	return false
}

func TestVerifReplay(t *testing.T) {
	fg := New()
	defer func() {
		if r := recover(); r != nil {
			t.Fatalf("REPLAY-CONFIRMED: host panic: %%v", r)
		}
	}()
	for _, prog := range []string{%q, %q} {
		f, _, err := fg.Generate(prog, %s)
		if err != nil {
			if isGoPanic(err.Error()) {
				t.Fatalf("REPLAY-CONFIRMED: %%s: %%v", prog, err)
			}
			continue
		}
		_, err = f.Eval(%s)
		if err != nil && isGoPanic(err.Error()) {
			t.Fatalf("REPLAY-CONFIRMED: %%s: a Go panic reached the evaluation boundary (not an ordinary error): %%v", prog, err)
		}
	}
}
`, prog, "try "+prog+" catch 0", strings.Join(names, ", "), strings.Join(vals, ", "))
	return "value", src, true
}
