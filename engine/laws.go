package main

import (
	"fmt"
	"go/token"
	"go/types"
	"sort"
	"strings"
	"time"

	"golang.org/x/tools/go/ssa"
)

// Algebraic laws over the entries of an operator table. The laws are stated over the symbolic results of the real
// registered function literals (loop-free closures, inlined), for all operand values of the entry's types.
//
//	law bool-result   every entry returns a Bool and no error
//	law symmetric     (T1,T2) registered  =>  (T2,T1) registered and R12(x,y) == R21(y,x)
//	law reflexive     R(x,x) for every (T,T) entry
//	law irreflexive   !R(x,x)
//	law asymmetric    R12(x,y) => !R21(y,x)
//	law transitive    R12(x,y) && R23(y,z) => R13(x,z) for every triple of registered pairs
//	law numeric-eq    on Int/Float pairs the result is equality of the numeric values
//	law numeric-lt    on Int/Float pairs the result is < of the numeric values
//	law total-on      T1,T2,...: every pair of the listed types is registered
func lawJobs(L *Loaded, id string, opt runOpts) []unitJob {
	var jobs []unitJob
	for _, c := range L.contracts.order {
		if c.kind != "table" || len(c.laws) == 0 {
			continue
		}
		if id != "" && !hasProp(c.props, id) {
			continue
		}
		c := c
		jobs = append(jobs, unitJob{name: "laws:" + c.key, run: func() *UnitResult { return VerifyLaws(L, c, opt) }})
	}
	return jobs
}

type symRes struct {
	val   *Term // Bool payload of result0
	ok    *Term // no error, no panic, result is a Bool
	noErr *Term
}

func VerifyLaws(L *Loaded, c *FuncContract, opt runOpts) (res *UnitResult) {
	t0 := time.Now()
	e := NewEnc(L)
	p := strings.TrimPrefix(strings.TrimPrefix(c.pkg, modPath), "/")
	e.ctx = p + "." + c.key + "$laws"
	ur := &UnitResult{Name: e.ctx, Func: e.ctx, Props: map[string][]string{}, con: c}
	res = ur
	defer func() {
		if r := recover(); r != nil {
			ur.Err = fmt.Sprint(r)
			if opt.debug {
				panic(r)
			}
		}
	}()
	e.safety = false
	e.topConPkg = c.pkg
	tb := e.tb
	entries := map[string]*tableEntry{}
	var keys []string
	typeByName := map[string]types.Type{}
	for _, t := range L.extractTables() {
		if t.table != c.key || funcPkgPath(t.site) != c.pkg || t.kind != "binop" {
			continue
		}
		k := shortTypeName(t.t1) + "," + shortTypeName(t.t2)
		entries[k] = t
		keys = append(keys, k)
		typeByName[shortTypeName(t.t1)] = t.t1
		typeByName[shortTypeName(t.t2)] = t.t2
	}
	sort.Strings(keys)
	st := State{reach: tb.True(), heap: map[string]*Term{}}
	oblige := func(kind, label string, cond *Term, text string) {
		q := e.oblige("law", kind+":"+label, &st, cond, token.NoPos)
		q.Text = text
		ur.Props[q.Name] = c.props
	}
	if len(keys) == 0 {
		oblige("table", "entries", tb.False(), "no registered entries found for table "+c.key)
	}
	boolT := L.typesPkg(c.pkg).Scope().Lookup("Bool")
	if boolT == nil {
		oblige("table", "Bool", tb.False(), "type Bool not found")
		e.finish(ur, opt)
		return ur
	}
	bt := boolT.Type()
	// symbolic operand per type and role
	operand := func(role string, t types.Type) *Term {
		v := tb.Const("v_"+role+"_"+sanitize(shortTypeName(t)), e.sortOf(t))
		e.assumeWF(tb.True(), t, v)
		return v
	}
	apply := func(t *tableEntry, x, y *Term) symRes {
		fn := t.fn
		stackArg := Val{T: []*Term{e.fresh("st", fn.Params[0].Type())}}
		a := Val{T: []*Term{tb.Box(e.typeKey(t.t1), e.sortOf(t.t1), x)}}
		b := Val{T: []*Term{tb.Box(e.typeKey(t.t2), e.sortOf(t.t2), y)}}
		e.bindFreeVars(fn)
		e.top = nil
		resv, out, fr := e.encodeFunc(fn, []Val{stackArg, a, b}, e.freeVarVals, st.clone(), nil, nil, nil)
		if len(resv) != 2 {
			return symRes{val: tb.False(), ok: tb.False(), noErr: tb.False()}
		}
		noPanic := tb.True()
		for _, pc := range fr.panics {
			noPanic = tb.And(noPanic, tb.Not(pc))
		}
		noErr := tb.Eq(resv[1], tb.NilIface())
		isBool := tb.IsBox(e.typeKey(bt), e.sortOf(bt), resv[0])
		return symRes{val: tb.Unbox(e.typeKey(bt), e.sortOf(bt), resv[0]), ok: tb.And(out.reach, noPanic, noErr, isBool), noErr: noErr}
	}
	isNum := func(t types.Type) bool { s := e.sortOf(t); return s == "Int" || s == "Real" }
	num := func(t types.Type, v *Term) *Term {
		if v.sort == "Int" {
			return tb.ToReal(v)
		}
		return v
	}
	for _, law := range c.laws {
		name, arg := law, ""
		if i := strings.Index(law, " "); i >= 0 {
			name, arg = law[:i], strings.TrimSpace(law[i+1:])
		}
		switch name {
		case "bool-result":
			for _, k := range keys {
				t := entries[k]
				r := apply(t, operand("x", t.t1), operand("y", t.t2))
				oblige("bool-result", "("+k+")", r.ok, "the entry returns a Bool and no error for all operands of its types")
			}
		case "symmetric":
			for _, k := range keys {
				t := entries[k]
				m, ok := entries[shortTypeName(t.t2)+","+shortTypeName(t.t1)]
				if !ok {
					oblige("symmetric-registered", "("+k+")", tb.False(), "the mirrored pair is not registered: a op b works while b op a fails")
					continue
				}
				x, y := operand("x", t.t1), operand("y", t.t2)
				r1, r2 := apply(t, x, y), apply(m, y, x)
				oblige("symmetric", "("+k+")", tb.And(r1.ok, r2.ok, tb.Eq(r1.val, r2.val)), "R(x,y) == R'(y,x)")
			}
		case "reflexive", "irreflexive":
			for _, k := range keys {
				t := entries[k]
				if shortTypeName(t.t1) != shortTypeName(t.t2) {
					continue
				}
				x := operand("x", t.t1)
				r := apply(t, x, x)
				if name == "reflexive" {
					oblige("reflexive", "("+k+")", tb.And(r.ok, r.val), "R(x,x)")
				} else {
					oblige("irreflexive", "("+k+")", tb.And(r.ok, tb.Not(r.val)), "!R(x,x)")
				}
			}
		case "asymmetric":
			for _, k := range keys {
				t := entries[k]
				m, ok := entries[shortTypeName(t.t2)+","+shortTypeName(t.t1)]
				if !ok {
					oblige("asymmetric-registered", "("+k+")", tb.False(), "the mirrored pair is not registered")
					continue
				}
				x, y := operand("x", t.t1), operand("y", t.t2)
				r1, r2 := apply(t, x, y), apply(m, y, x)
				oblige("asymmetric", "("+k+")", tb.And(r1.ok, r2.ok, tb.Imp(r1.val, tb.Not(r2.val))), "R(x,y) => !R'(y,x)")
			}
		case "transitive":
			for _, k1 := range keys {
				t12 := entries[k1]
				for _, k2 := range keys {
					t23 := entries[k2]
					if shortTypeName(t23.t1) != shortTypeName(t12.t2) {
						continue
					}
					t13, ok := entries[shortTypeName(t12.t1)+","+shortTypeName(t23.t2)]
					label := "(" + shortTypeName(t12.t1) + "," + shortTypeName(t12.t2) + "," + shortTypeName(t23.t2) + ")"
					if !ok {
						oblige("transitive-registered", label, tb.False(), "the pair closing the triple is not registered")
						continue
					}
					x, y, z := operand("x", t12.t1), operand("y", t12.t2), operand("z", t23.t2)
					r12, r23, r13 := apply(t12, x, y), apply(t23, y, z), apply(t13, x, z)
					oblige("transitive", label, tb.And(r12.ok, r23.ok, r13.ok, tb.Imp(tb.And(r12.val, r23.val), r13.val)), "R(x,y) && R(y,z) => R(x,z)")
				}
			}
		case "numeric-eq", "numeric-lt":
			for _, k := range keys {
				t := entries[k]
				if !isNum(t.t1) || !isNum(t.t2) {
					continue
				}
				x, y := operand("x", t.t1), operand("y", t.t2)
				r := apply(t, x, y)
				var want *Term
				if name == "numeric-eq" {
					want = tb.Eq(num(t.t1, x), num(t.t2, y))
				} else {
					want = tb.Lt(num(t.t1, x), num(t.t2, y))
				}
				oblige(name, "("+k+")", tb.And(r.ok, tb.Eq(r.val, want)), "the result compares the numeric values of the operands")
			}
		case "total-on":
			var ts []string
			for _, a := range strings.Split(arg, ",") {
				ts = append(ts, strings.TrimSpace(a))
			}
			for _, a := range ts {
				for _, b := range ts {
					if _, ok := entries[a+","+b]; !ok {
						oblige("total-on", "("+a+","+b+")", tb.False(), "pair not registered")
					} else {
						oblige("total-on", "("+a+","+b+")", tb.True(), "pair registered")
					}
				}
			}
		default:
			oblige("law", name, tb.False(), "unknown law "+name)
		}
	}
	ur.EncodeS = time.Since(t0).Seconds()
	e.finish(ur, opt)
	return ur
}

var _ = ssa.NaiveForm
