package main

import (
	"fmt"
	"go/token"
	"go/types"
	"sort"
	"strings"
	"time"

	"golang.org/x/tools/go/ssa"
)

// Algebraic laws over the entries of an operator table. The laws are stated over the symbolic results of the real
// registered function literals (loop-free closures, inlined), for all operand values of the entry's types.
//
//	law bool-result   every entry returns a Bool and no error
//	law symmetric     (T1,T2) registered  =>  (T2,T1) registered and R12(x,y) == R21(y,x)
//	law reflexive     R(x,x) for every (T,T) entry
//	law irreflexive   !R(x,x)
//	law asymmetric    R12(x,y) => !R21(y,x)
//	law transitive    R12(x,y) && R23(y,z) => R13(x,z) for every triple of registered pairs
//	law numeric-eq    on Int/Float pairs the result is equality of the numeric values
//	law numeric-lt    on Int/Float pairs the result is < of the numeric values
//	law total-on      T1,T2,...: every pair of the listed types is registered
func lawJobs(L *Loaded, id string, opt runOpts) []unitJob {
	var jobs []unitJob
	for _, c := range L.contracts.order {
		if c.kind != "table" || len(c.laws) == 0 {
			continue
		}
		if id != "" && !hasProp(c.props, id) {
			found := false
			for _, ps := range c.lawProps {
				if hasProp(ps, id) {
					found = true
				}
			}
			if !found {
				continue
			}
		}
		c := c
		jobs = append(jobs, unitJob{name: "laws:" + c.key, run: func() *UnitResult { return VerifyLaws(L, c, opt) }})
	}
	return jobs
}

type symRes struct {
	val   *Term // Bool payload of result0
	ok    *Term // no error, no panic, result is a Bool
	noErr *Term
	res   *Term // result0 as it is (interface value)
	okAny *Term // no error, no panic
}

func VerifyLaws(L *Loaded, c *FuncContract, opt runOpts) (res *UnitResult) {
	t0 := time.Now()
	e := NewEnc(L)
	p := strings.TrimPrefix(strings.TrimPrefix(c.pkg, modPath), "/")
	e.ctx = p + "." + c.key + "$laws"
	ur := &UnitResult{Name: e.ctx, Func: e.ctx, Props: map[string][]string{}, con: c}
	res = ur
	defer func() {
		if r := recover(); r != nil {
			ur.Err = fmt.Sprint(r)
			if opt.debug {
				panic(r)
			}
		}
	}()
	e.safety = false
	e.topConPkg = c.pkg
	tb := e.tb
	entries := map[string]*tableEntry{}
	var keys []string
	typeByName := map[string]types.Type{}
	for _, t := range L.extractTables() {
		if t.table != c.key || funcPkgPath(t.site) != c.pkg || t.kind != "binop" {
			continue
		}
		k := shortTypeName(t.t1) + "," + shortTypeName(t.t2)
		entries[k] = t
		keys = append(keys, k)
		typeByName[shortTypeName(t.t1)] = t.t1
		typeByName[shortTypeName(t.t2)] = t.t2
	}
	sort.Strings(keys)
	st := State{reach: tb.True(), heap: map[string]*Term{}}
	curLaw := ""
	oblige := func(kind, label string, cond *Term, text string) {
		q := e.oblige("law", kind+":"+label, &st, cond, token.NoPos)
		q.Text = text
		ur.Props[q.Name] = c.props
		if ps, ok := c.lawProps[curLaw]; ok {
			ur.Props[q.Name] = ps
		}
	}
	if len(keys) == 0 {
		oblige("table", "entries", tb.False(), "no registered entries found for table "+c.key)
	}
	boolT := L.typesPkg(c.pkg).Scope().Lookup("Bool")
	if boolT == nil {
		oblige("table", "Bool", tb.False(), "type Bool not found")
		e.finish(ur, opt)
		return ur
	}
	bt := boolT.Type()
	// symbolic operand per type and role
	operand := func(role string, t types.Type) *Term {
		v := tb.Const("v_"+role+"_"+sanitize(shortTypeName(t)), e.sortOf(t))
		e.assumeWF(tb.True(), t, v)
		return v
	}
	apply := func(t *tableEntry, x, y *Term) symRes {
		fn := t.fn
		stackArg := Val{T: []*Term{e.fresh("st", fn.Params[0].Type())}}
		a := Val{T: []*Term{tb.Box(e.typeKey(t.t1), e.sortOf(t.t1), x)}}
		b := Val{T: []*Term{tb.Box(e.typeKey(t.t2), e.sortOf(t.t2), y)}}
		e.bindFreeVars(fn)
		e.top = nil
		resv, out, fr := e.encodeFunc(fn, []Val{stackArg, a, b}, e.freeVarVals, st.clone(), nil, nil, nil)
		if len(resv) != 2 {
			return symRes{val: tb.False(), ok: tb.False(), noErr: tb.False(), res: tb.NilIface(), okAny: tb.False()}
		}
		noPanic := tb.True()
		for _, pc := range fr.panics {
			noPanic = tb.And(noPanic, tb.Not(pc))
		}
		noErr := tb.Eq(resv[1], tb.NilIface())
		isBool := tb.IsBox(e.typeKey(bt), e.sortOf(bt), resv[0])
		return symRes{val: tb.Unbox(e.typeKey(bt), e.sortOf(bt), resv[0]), ok: tb.And(out.reach, noPanic, noErr, isBool), noErr: noErr, res: resv[0], okAny: tb.And(out.reach, noPanic, noErr)}
	}
	isNum := func(t types.Type) bool {
		if _, basic := t.Underlying().(*types.Basic); !basic {
			return false
		}
		s := e.sortOf(t)
		return s == "Int" || s == "Real"
	}
	num := func(t types.Type, v *Term) *Term {
		if v.sort == "Int" {
			return tb.ToReal(v)
		}
		return v
	}
	for _, law := range c.laws {
		curLaw = law
		name, arg := law, ""
		if i := strings.Index(law, " "); i >= 0 {
			name, arg = law[:i], strings.TrimSpace(law[i+1:])
		}
		switch name {
		case "bool-result":
			for _, k := range keys {
				t := entries[k]
				r := apply(t, operand("x", t.t1), operand("y", t.t2))
				oblige("bool-result", "("+k+")", r.ok, "the entry returns a Bool and no error for all operands of its types")
			}
		case "symmetric":
			for _, k := range keys {
				t := entries[k]
				m, ok := entries[shortTypeName(t.t2)+","+shortTypeName(t.t1)]
				if !ok {
					oblige("symmetric-registered", "("+k+")", tb.False(), "the mirrored pair is not registered: a op b works while b op a fails")
					continue
				}
				x, y := operand("x", t.t1), operand("y", t.t2)
				r1, r2 := apply(t, x, y), apply(m, y, x)
				oblige("symmetric", "("+k+")", tb.And(r1.ok, r2.ok, tb.Eq(r1.val, r2.val)), "R(x,y) == R'(y,x)")
			}
		case "reflexive", "irreflexive":
			for _, k := range keys {
				t := entries[k]
				if shortTypeName(t.t1) != shortTypeName(t.t2) {
					continue
				}
				x := operand("x", t.t1)
				r := apply(t, x, x)
				if name == "reflexive" {
					oblige("reflexive", "("+k+")", tb.And(r.ok, r.val), "R(x,x)")
				} else {
					oblige("irreflexive", "("+k+")", tb.And(r.ok, tb.Not(r.val)), "!R(x,x)")
				}
			}
		case "asymmetric":
			for _, k := range keys {
				t := entries[k]
				m, ok := entries[shortTypeName(t.t2)+","+shortTypeName(t.t1)]
				if !ok {
					oblige("asymmetric-registered", "("+k+")", tb.False(), "the mirrored pair is not registered")
					continue
				}
				x, y := operand("x", t.t1), operand("y", t.t2)
				r1, r2 := apply(t, x, y), apply(m, y, x)
				oblige("asymmetric", "("+k+")", tb.And(r1.ok, r2.ok, tb.Imp(r1.val, tb.Not(r2.val))), "R(x,y) => !R'(y,x)")
			}
		case "transitive":
			for _, k1 := range keys {
				t12 := entries[k1]
				for _, k2 := range keys {
					t23 := entries[k2]
					if shortTypeName(t23.t1) != shortTypeName(t12.t2) {
						continue
					}
					t13, ok := entries[shortTypeName(t12.t1)+","+shortTypeName(t23.t2)]
					label := "(" + shortTypeName(t12.t1) + "," + shortTypeName(t12.t2) + "," + shortTypeName(t23.t2) + ")"
					if !ok {
						oblige("transitive-registered", label, tb.False(), "the pair closing the triple is not registered")
						continue
					}
					x, y, z := operand("x", t12.t1), operand("y", t12.t2), operand("z", t23.t2)
					r12, r23, r13 := apply(t12, x, y), apply(t23, y, z), apply(t13, x, z)
					oblige("transitive", label, tb.And(r12.ok, r23.ok, r13.ok, tb.Imp(tb.And(r12.val, r23.val), r13.val)), "R(x,y) && R(y,z) => R(x,z)")
				}
			}
		case "numeric-eq", "numeric-lt":
			for _, k := range keys {
				t := entries[k]
				if !isNum(t.t1) || !isNum(t.t2) {
					continue
				}
				x, y := operand("x", t.t1), operand("y", t.t2)
				r := apply(t, x, y)
				var want *Term
				if name == "numeric-eq" {
					want = tb.Eq(num(t.t1, x), num(t.t2, y))
				} else {
					want = tb.Lt(num(t.t1, x), num(t.t2, y))
				}
				oblige(name, "("+k+")", tb.And(r.ok, tb.Eq(r.val, want)), "the result compares the numeric values of the operands")
			}
		case "numeric-arith":
			// on Int/Float pairs the entry computes the arithmetic operation; the result is an Int iff both operands are
			// (division always yields a Float; a zero divisor is outside the law)
			intT, floatT := typeByName["Int"], typeByName["Float"]
			for _, k := range keys {
				t := entries[k]
				if !isNum(t.t1) || !isNum(t.t2) || intT == nil && floatT == nil {
					continue
				}
				x, y := operand("x", t.t1), operand("y", t.t2)
				r := apply(t, x, y)
				bothInt := e.sortOf(t.t1) == "Int" && e.sortOf(t.t2) == "Int"
				var want, guard *Term
				guard = tb.True()
				switch arg {
				case "+", "-", "*":
					op := map[string]func(a, b *Term) *Term{"+": tb.Add, "-": tb.Sub, "*": tb.Mul}[arg]
					if bothInt && intT != nil {
						want = tb.Box(e.typeKey(intT), e.sortOf(intT), op(x, y))
					} else if floatT != nil {
						want = tb.Box(e.typeKey(floatT), e.sortOf(floatT), op(num(t.t1, x), num(t.t2, y)))
					}
				case "/":
					if floatT != nil {
						want = tb.Box(e.typeKey(floatT), e.sortOf(floatT), tb.RealDiv(num(t.t1, x), num(t.t2, y)))
						guard = tb.Not(tb.Eq(num(t.t2, y), tb.ToReal(tb.Int(0))))
					}
				}
				if want == nil {
					oblige("numeric-arith", "("+k+")", tb.False(), "unsupported operator "+arg)
					continue
				}
				oblige("numeric-arith", "("+k+")", tb.Imp(guard, tb.And(r.okAny, tb.Eq(r.res, want))), "the entry computes x "+arg+" y; Int only if both operands are Int")
			}
		case "total-on":
			var ts []string
			for _, a := range strings.Split(arg, ",") {
				ts = append(ts, strings.TrimSpace(a))
			}
			for _, a := range ts {
				for _, b := range ts {
					if _, ok := entries[a+","+b]; !ok {
						oblige("total-on", "("+a+","+b+")", tb.False(), "pair not registered")
					} else {
						oblige("total-on", "("+a+","+b+")", tb.True(), "pair registered")
					}
				}
			}
		case "commutative", "associative", "only-on", "computes-and", "computes-or":
			var types_ []types.Type
			seenT := map[string]bool{}
			for _, k := range keys {
				for _, t := range []types.Type{entries[k].t1, entries[k].t2} {
					if !seenT[shortTypeName(t)] {
						seenT[shortTypeName(t)] = true
						types_ = append(types_, t)
					}
				}
			}
			sort.Slice(types_, func(i, j int) bool { return shortTypeName(types_[i]) < shortTypeName(types_[j]) })
			// the table as a partial function: a pair that is not registered is an error (operationMatrixSimple.Calc)
			typed := func(t1, t2 types.Type, x, y *Term) (ok, val *Term) {
				t, has := entries[shortTypeName(t1)+","+shortTypeName(t2)]
				if !has {
					return tb.False(), tb.NilIface()
				}
				r := apply(t, x, y)
				return r.okAny, r.res
			}
			// dispatch on the dynamic type of an intermediate result
			dynLeft := func(ok1, v1 *Term, t3 types.Type, z *Term) (ok, val *Term) {
				ok, val = tb.False(), tb.NilIface()
				for _, u := range types_ {
					c := tb.IsBox(e.typeKey(u), e.sortOf(u), v1)
					o2, v2 := typed(u, t3, tb.Unbox(e.typeKey(u), e.sortOf(u), v1), z)
					ok = tb.Or(ok, tb.And(c, o2))
					val = tb.Ite(c, v2, val)
				}
				return tb.And(ok1, ok), val
			}
			dynRight := func(t1 types.Type, x *Term, ok2, v2 *Term) (ok, val *Term) {
				ok, val = tb.False(), tb.NilIface()
				for _, u := range types_ {
					c := tb.IsBox(e.typeKey(u), e.sortOf(u), v2)
					o3, v3 := typed(t1, u, x, tb.Unbox(e.typeKey(u), e.sortOf(u), v2))
					ok = tb.Or(ok, tb.And(c, o3))
					val = tb.Ite(c, v3, val)
				}
				return tb.And(ok2, ok), val
			}
			switch name {
			case "commutative":
				for _, t1 := range types_ {
					for _, t2 := range types_ {
						x, y := operand("x", t1), operand("y", t2)
						o1, v1 := typed(t1, t2, x, y)
						o2, v2 := typed(t2, t1, y, x)
						oblige("commutative", "("+shortTypeName(t1)+","+shortTypeName(t2)+")", tb.And(tb.Eq(o1, o2), tb.Imp(o1, tb.Eq(v1, v2))), "x op y and y op x have the same outcome (value, or an error in both)")
					}
				}
			case "associative":
				for _, t1 := range types_ {
					for _, t2 := range types_ {
						for _, t3 := range types_ {
							x, y, z := operand("x", t1), operand("y", t2), operand("z", t3)
							oxy, vxy := typed(t1, t2, x, y)
							ol, vl := dynLeft(oxy, vxy, t3, z)
							oyz, vyz := typed(t2, t3, y, z)
							or, vr := dynRight(t1, x, oyz, vyz)
							oblige("associative", "("+shortTypeName(t1)+","+shortTypeName(t2)+","+shortTypeName(t3)+")", tb.And(tb.Eq(ol, or), tb.Imp(ol, tb.Eq(vl, vr))), "(x op y) op z and x op (y op z) have the same outcome (value, or an error in both)")
						}
					}
				}
			case "only-on":
				allowed := map[string]bool{}
				for _, a := range strings.Split(arg, ",") {
					allowed[strings.TrimSpace(a)] = true
				}
				for _, k := range keys {
					t := entries[k]
					okT := allowed[shortTypeName(t.t1)] && allowed[shortTypeName(t.t2)]
					c := tb.True()
					if !okT {
						c = tb.False()
					}
					oblige("only-on", "("+k+")", c, "the generated code evaluates this operator only on "+arg+"; an entry for other operand types is reachable only through constant folding")
				}
			case "computes-and", "computes-or":
				for _, k := range keys {
					t := entries[k]
					if shortTypeName(t.t1) != "Bool" || shortTypeName(t.t2) != "Bool" {
						continue
					}
					x, y := operand("x", t.t1), operand("y", t.t2)
					r := apply(t, x, y)
					want := tb.And(x, y)
					if name == "computes-or" {
						want = tb.Or(x, y)
					}
					oblige(name, "("+k+")", tb.And(r.ok, tb.Eq(r.val, want)), "the entry computes what the short-circuit code of the generator computes on two Bool operands")
				}
			}
		default:
			oblige("law", name, tb.False(), "unknown law "+name)
		}
	}
	ur.EncodeS = time.Since(t0).Seconds()
	e.finish(ur, opt)
	return ur
}

var _ = ssa.NaiveForm

// ---------- operators registered as commutative ----------
//
// `flags <Func>`: every operator that <Func> registers with isCommutative == true (AddOp, AddOpImpl, AddOpPure,
// AddOpBehind, AddSimpleOp) must have the laws the optimizer relies on when it regroups constants: its implementation
// is commutative and associative, errors included. An implementation built by a table constructor (value.Mul, ...)
// must have `law commutative` and `law associative` claimed on that table; a function literal is checked directly.

type flaggedOp struct {
	op    string
	table string        // constructor function of an operation matrix, or ""
	lit   *ssa.Function // function literal, or nil
	pos   token.Pos
}

func unwrapIface(v ssa.Value) ssa.Value {
	for {
		switch x := v.(type) {
		case *ssa.MakeInterface:
			v = x.X
		case *ssa.ChangeInterface:
			v = x.X
		case *ssa.ChangeType:
			v = x.X
		case *ssa.UnOp:
			// a load of a local variable that is assigned exactly once (captured by a literal later on)
			al, isAlloc := x.X.(*ssa.Alloc)
			if x.Op != token.MUL || !isAlloc || al.Referrers() == nil {
				return v
			}
			var stored ssa.Value
			n := 0
			for _, r := range *al.Referrers() {
				if st, ok := r.(*ssa.Store); ok && st.Addr == al {
					stored = st.Val
					n++
				}
			}
			if n != 1 {
				return v
			}
			v = stored
		default:
			return v
		}
	}
}

func (L *Loaded) flaggedOps(fn *ssa.Function) (out []flaggedOp, unknown []string) {
	var walk func(f *ssa.Function)
	walk = func(f *ssa.Function) {
		for _, b := range f.Blocks {
			for _, in := range b.Instrs {
				call, ok := in.(*ssa.Call)
				if !ok {
					continue
				}
				callee := call.Common().StaticCallee()
				if callee == nil || callee.Signature.Recv() == nil {
					continue
				}
				args := call.Common().Args[1:]
				var opArg, commArg, implArg ssa.Value
				switch baseName(callee) {
				case "AddOp", "AddOpImpl", "AddSimpleOp":
					if len(args) == 3 {
						opArg, commArg, implArg = args[0], args[1], args[2]
					}
				case "AddOpPure":
					if len(args) == 4 {
						opArg, commArg, implArg = args[0], args[1], args[2]
					}
				case "AddOpBehind":
					if len(args) == 5 {
						opArg, commArg, implArg = args[1], args[2], args[3]
					}
				}
				if opArg == nil || !strings.HasSuffix(funcPkgPath(callee), "/funcGen") {
					continue
				}
				name, _ := constString(opArg)
				c, isConst := commArg.(*ssa.Const)
				if !isConst {
					if _, isParam := commArg.(*ssa.Parameter); isParam {
						continue // forwarding wrapper (AddOp -> AddOpPure): the flag is checked where it is a constant
					}
					unknown = append(unknown, name)
					continue
				}
				if c.Value == nil || c.Value.String() != "true" {
					continue
				}
				impl := unwrapIface(implArg)
				fo := flaggedOp{op: name, pos: call.Pos()}
				switch x := impl.(type) {
				case *ssa.Call:
					if tc := x.Common().StaticCallee(); tc != nil && inRepo(tc) {
						fo.table = baseName(tc)
					}
				case *ssa.MakeClosure:
					fo.lit = x.Fn.(*ssa.Function)
				case *ssa.Function:
					fo.lit = x
				}
				if fo.table == "" && fo.lit == nil {
					unknown = append(unknown, name)
					continue
				}
				out = append(out, fo)
			}
		}
		for _, a := range f.AnonFuncs {
			walk(a)
		}
	}
	walk(fn)
	return
}

func flagJobs(L *Loaded, id string, opt runOpts) []unitJob {
	var jobs []unitJob
	for _, c := range L.contracts.order {
		if c.kind != "flags" || (id != "" && !hasProp(c.props, id)) {
			continue
		}
		c := c
		jobs = append(jobs, unitJob{name: "flags:" + c.key, run: func() *UnitResult { return VerifyFlags(L, c, opt) }})
	}
	return jobs
}

func VerifyFlags(L *Loaded, c *FuncContract, opt runOpts) (res *UnitResult) {
	t0 := time.Now()
	e := NewEnc(L)
	p := strings.TrimPrefix(strings.TrimPrefix(c.pkg, modPath), "/")
	e.ctx = p + "." + c.key + "$commutative-flags"
	ur := &UnitResult{Name: e.ctx, Func: e.ctx, Props: map[string][]string{}, con: c}
	res = ur
	defer func() {
		if r := recover(); r != nil {
			ur.Err = fmt.Sprint(r)
			if opt.debug {
				panic(r)
			}
		}
	}()
	e.safety = false
	e.topConPkg = c.pkg
	tb := e.tb
	st := State{reach: tb.True(), heap: map[string]*Term{}}
	oblige := func(kind, label string, cond *Term, text string) {
		q := e.oblige("law", kind+":"+label, &st, cond, token.NoPos)
		q.Text = text
		ur.Props[q.Name] = c.props
	}
	fns := L.byKey[c.pkg+"::"+c.key]
	if c.key == "init" { // package-level initialisers live in the synthetic function init
		for f := range L.allFuncs {
			if f.Name() == "init" && f.Pkg != nil && f.Pkg.Pkg.Path() == c.pkg && f.Blocks != nil && f.Parent() == nil {
				fns = append(fns, f)
			}
		}
	}
	if len(fns) == 0 {
		oblige("flags", "target", tb.False(), "function "+c.key+" not found")
	}
	for _, fn := range fns {
		ops, unknown := L.flaggedOps(fn)
		for _, u := range unknown {
			oblige("flag-traced", u, tb.False(), "operator "+u+": the commutativity flag or the implementation cannot be traced to a constant / a table constructor / a function literal")
		}
		for _, fo := range ops {
			if fo.table != "" {
				// the table must claim both laws
				var tc *FuncContract
				for _, cc := range L.contracts.order {
					if cc.kind == "table" && cc.key == fo.table {
						tc = cc
					}
				}
				has := func(l string) bool {
					if tc == nil {
						return false
					}
					for _, x := range tc.laws {
						if x == l {
							return true
						}
					}
					return false
				}
				cond := tb.True()
				if !has("commutative") || !has("associative") {
					cond = tb.False()
				}
				oblige("flagged-table-has-laws", fo.op+":"+fo.table, cond, "operator "+fo.op+" is registered as commutative: table "+fo.table+" must carry `law commutative` and `law associative` (proved in its own unit)")
				continue
			}
			// a function literal: func(a, b V) (V, error) or func(st, a, b V) (V, error)
			lit := fo.lit
			np := len(lit.Params)
			if np != 2 && np != 3 {
				oblige("flag-traced", fo.op, tb.False(), "unexpected signature of the implementation literal")
				continue
			}
			vt := lit.Params[np-1].Type()
			opLabel := fo.op + "[" + shortTypeName(vt) + "]"
			mk := func(role string) *Term {
				v := tb.Const("v_"+role+"_"+sanitize(opLabel), e.sortOf(vt))
				e.assumeWF(tb.True(), vt, v)
				return v
			}
			applyLit := func(x, y *Term) (ok, val *Term) {
				var args []Val
				if np == 3 {
					args = append(args, Val{T: []*Term{e.fresh("st", lit.Params[0].Type())}})
				}
				args = append(args, Val{T: []*Term{x}}, Val{T: []*Term{y}})
				e.bindFreeVars(lit)
				e.top = nil
				resv, out, fr := e.encodeFunc(lit, args, e.freeVarVals, st.clone(), nil, nil, nil)
				if len(resv) != 2 {
					return tb.False(), x
				}
				noPanic := tb.True()
				for _, pc := range fr.panics {
					noPanic = tb.And(noPanic, tb.Not(pc))
				}
				return tb.And(out.reach, noPanic, tb.Eq(resv[1], tb.NilIface())), resv[0]
			}
			x, y, z := mk("x"), mk("y"), mk("z")
			o1, v1 := applyLit(x, y)
			o2, v2 := applyLit(y, x)
			oblige("commutative", opLabel, tb.And(tb.Eq(o1, o2), tb.Imp(o1, tb.Eq(v1, v2))), "x op y and y op x have the same outcome")
			ol, vl := applyLit(v1, z)
			oyz, vyz := applyLit(y, z)
			or, vr := applyLit(x, vyz)
			ol, or = tb.And(o1, ol), tb.And(oyz, or)
			oblige("associative", opLabel, tb.And(tb.Eq(ol, or), tb.Imp(ol, tb.Eq(vl, vr))), "(x op y) op z and x op (y op z) have the same outcome")
		}
	}
	ur.EncodeS = time.Since(t0).Seconds()
	e.finish(ur, opt)
	return ur
}
