package main

import (
	"fmt"
	"go/ast"
	"go/constant"
	"go/token"
	"go/types"
	"math/big"
	"os"
	"sort"
	"strings"

	"golang.org/x/tools/go/ssa"
)

const RefSort = "Int"

// Val is the symbolic value of an SSA value: one term per tuple component and, for pointers
// whose target is known on the Go side (interior pointers), an address.
type Val struct {
	T    []*Term
	Addr *Addr
}

func (v Val) t() *Term { return v.T[0] }

type stepKind int

const (
	stField stepKind = iota
	stIndex
)

type step struct {
	kind  stepKind
	field int
	idx   *Term
	cont  types.Type // type of the container (struct or array)
}

// Addr designates a memory location: a heap object (ref) or a slice element (ref, idx), then a path of
// field / array-index steps into the value stored there.
type Addr struct {
	elem bool  // slice/array-backing element
	ref  *Term // object ref or backing ref
	idx  *Term // absolute element index (elem)
	off  *Term // slice offset and relative index when known separately (idx == off + rel); used for trigger-friendly reads
	rel  *Term
	root types.Type // type of the object / element
	path []step
	glob *ssa.Global
}

func (a *Addr) extend(s step) *Addr {
	cp := *a
	cp.path = append(append([]step{}, a.path...), s)
	return &cp
}

// State is the symbolic machine state at a program point.
type State struct {
	reach *Term
	heap  map[string]*Term // register name -> array term; absent = the epoch's initial value
	ep    *epoch
}

// epoch identifies the unknown heap a state started from: the entry heap, the heap after a havoc of
// everything, or the merge of two such.
type epoch struct {
	id        int
	mark      int    // local allocations made before the havoc
	cloParent *State // entry state of a function literal: the state of the enclosing function when the literal was created
	cond      *Term  // merge: cond ? b : a
	a, b      *epoch
}

func (s State) clone() State {
	n := State{reach: s.reach, ep: s.ep, heap: make(map[string]*Term, len(s.heap))}
	for k, v := range s.heap {
		n.heap[k] = v
	}
	return n
}

type regInfo struct {
	name string
	sort string // array sort
	elem bool
	typ  types.Type // value type stored (field type / pointee / element)
}

type allocInfo struct {
	ref     *Term
	typ     types.Type // allocated type (pointee), or element type for arrays
	isArray bool
	escaped bool
}

// Enc is the symbolic executor for one verification unit.
type Enc struct {
	onceCells   map[*ssa.Function]map[*ssa.Alloc]*ssa.Store
	onceVals    map[*Term]*Term
	yieldParam  *Term  // the callback parameter of a unit under the `yields` protocol (nil: none)
	yieldName   string
	mapEnumDone map[*Term]bool
	yieldType   types.Type
	yieldEnv    func(st *State) *evalEnv // the unit's own parameters over a given state (for its `iterates` summary)
	yieldCells  map[*Term]bool
	yieldLits   map[*ssa.MakeClosure]bool // literals that capture the callback: true once verified as an iteration body
	recoverMode int // 0: recover() is unknown, 1: no panic is in flight (nil), 2: a panic is being recovered (non-nil)
	tb      *TB
	L       *Loaded
	prog    *ssa.Program
	assumes []*Term
	queries []*Query
	notes   map[string]int
	stack   []*ssa.Function
	ctx     string
	oblSeq  map[string]int
	regs    map[string]*regInfo
	nalloc  int
	nevent  int
	nepoch  int
	allocs  []*allocInfo
	wfDone  map[int]bool
	structT map[string]types.Type // struct sort name -> a Go type with that sort
	top     *ssa.Function
	topFr   *Frame
	// configuration
	safety        bool // generate K2 obligations
	closureVerify bool // verify function literals at their creation site
	hooks         encHooks
	assumptionLog map[string]bool // modelling assumptions that were exercised (for evidence)
	depth         int
	inputs        []NamedTerm
	hints         []*Term
	useWriterLog  bool
	curCon        *FuncContract
	immRegs       map[string]bool
	immTop        *ssa.Function
	entry         *tableEntry
	freeVarVals   []Val
	topConPkg     string
	envAlias      func(env *evalEnv, args []Val)
	closureHook   func(fr *Frame, x *ssa.MakeClosure, fnTerm *Term, st *State)
	assumeScope   []int // per assumption: 0 = visible to every later obligation, k = only to the obligations of scope k
	curScope      int
	nscope        int
	qProps        map[string][]string // obligations whose clause names its own property ids
	lazyReach     []*Term             // reach conditions of calls that evaluate something in a unit declared `constructs-lazily`
	lazyWhat      []string
	freshMark     map[string]int // unknown (havocked) constant -> number of local allocations made before it was introduced
}

type encHooks struct {
	// contractFor returns the contract to use at a call of fn (nil: none).
	contractFor func(fn *ssa.Function) *FuncContract
}

func NewEnc(L *Loaded) *Enc {
	e := &Enc{tb: NewTB(), L: L, prog: L.prog, notes: map[string]int{}, oblSeq: map[string]int{}, regs: map[string]*regInfo{},
		wfDone: map[int]bool{}, structT: map[string]types.Type{}, assumptionLog: map[string]bool{}, safety: true, freshMark: map[string]int{}}
	e.tb.onFresh = func(name string) { e.freshMark[name] = e.nalloc }
	return e
}

func (e *Enc) note(s string)     { e.notes[s]++ }
func (e *Enc) modelled(s string) { e.assumptionLog[s] = true }

func (e *Enc) assume(guard, fact *Term) {
	f := e.tb.Imp(guard, fact)
	if e.tb.isTrue(f) {
		return
	}
	e.assumes = append(e.assumes, f)
	e.assumeScope = append(e.assumeScope, e.curScope)
}

// oblige records a proof obligation `reach => cond`.
func (e *Enc) oblige(kind, label string, st *State, cond *Term, pos token.Pos, vals ...NamedTerm) *Query {
	goal := e.tb.Imp(st.reach, cond)
	name := e.ctx + "#" + kind
	if label != "" {
		name += ":" + label
	}
	e.oblSeq[name]++
	if n := e.oblSeq[name]; n > 1 {
		name = fmt.Sprintf("%s~%d", name, n)
	}
	q := &Query{Name: name, Kind: kind, NAssume: len(e.assumes), Goal: goal, Vals: vals, Text: label, Label: label, Scope: e.curScope}
	if pos.IsValid() {
		p := e.prog.Fset.Position(pos)
		q.Pos = fmt.Sprintf("%s:%d", shortPath(p.Filename), p.Line)
	}
	if e.tb.isTrue(goal) {
		q.Goal = goal // trivially discharged; still recorded so that names are stable
	}
	e.queries = append(e.queries, q)
	if os.Getenv("GOVC_SPLIT") != "" { // debugging aid: one extra obligation per conjunct
		var split func(t *Term) []*Term
		split = func(t *Term) []*Term {
			switch {
			case t.op == "and":
				var out []*Term
				for _, a := range t.args {
					out = append(out, split(a)...)
				}
				return out
			case t.op == "=>" && len(t.args) == 2:
				var out []*Term
				for _, c := range split(t.args[1]) {
					out = append(out, e.tb.Imp(t.args[0], c))
				}
				return out
			}
			return []*Term{t}
		}
		parts := split(cond)
		if len(parts) < 2 {
			parts = nil
		}
		for i, c := range parts {
			e.queries = append(e.queries, &Query{Name: fmt.Sprintf("%s.c%d", name, i+1), Kind: kind, NAssume: len(e.assumes), Goal: e.tb.Imp(st.reach, c), Vals: vals, Text: label, Label: label, Scope: e.curScope, Pos: q.Pos})
		}
	}
	return q
}

func shortPath(p string) string {
	if i := strings.Index(p, "/repo/"); i >= 0 {
		return p[i+6:]
	}
	return p
}

// ---------- sorts ----------

func (e *Enc) sortOf(t types.Type) string {
	switch u := t.Underlying().(type) {
	case *types.Basic:
		switch {
		case u.Info()&types.IsBoolean != 0:
			return "Bool"
		case u.Info()&types.IsInteger != 0:
			return "Int"
		case u.Info()&types.IsFloat != 0:
			return "Real"
		case u.Info()&types.IsString != 0:
			return "Str"
		case u.Kind() == types.UnsafePointer, u.Kind() == types.UntypedNil:
			return RefSort
		}
		return "Int"
	case *types.Pointer, *types.Map, *types.Chan:
		return RefSort
	case *types.Slice:
		return "Slice"
	case *types.Interface:
		return "Iface"
	case *types.Signature:
		return "Fn"
	case *types.Array:
		return arraySort("Int", e.sortOf(u.Elem()))
	case *types.Struct:
		return e.structSortOf(t, u).name
	case *types.TypeParam:
		e.note("type parameter reached sortOf: " + t.String())
		return "Iface"
	}
	e.note(fmt.Sprintf("sortOf: %T", t.Underlying()))
	return "Int"
}

func (e *Enc) structSortOf(t types.Type, u *types.Struct) *structSort {
	key := types.TypeString(u, nil)
	if s, ok := e.tb.structByKey[key]; ok {
		return s
	}
	name := "anon"
	if n, ok := t.(*types.Named); ok {
		name = n.Obj().Name()
	}
	// reserve the entry first (recursive struct types through pointers are Int, so no real recursion,
	// but interface-boxed structs may refer back)
	fn := make([]string, u.NumFields())
	fs := make([]string, u.NumFields())
	s := e.tb.Struct(key, name, fn, fs)
	for i := 0; i < u.NumFields(); i++ {
		fn[i] = u.Field(i).Name()
		fs[i] = e.sortOf(u.Field(i).Type())
	}
	e.structT[s.name] = t
	return s
}

func (e *Enc) structOf(t types.Type) (*structSort, *types.Struct) {
	u, ok := t.Underlying().(*types.Struct)
	if !ok {
		panic("structOf: not a struct: " + t.String())
	}
	return e.structSortOf(t, u), u
}

func (e *Enc) zero(t types.Type) *Term {
	tb := e.tb
	switch u := t.Underlying().(type) {
	case *types.Struct:
		s := e.structSortOf(t, u)
		fs := make([]*Term, u.NumFields())
		for i := range fs {
			fs[i] = e.zero(u.Field(i).Type())
		}
		return tb.MkStruct(s, fs...)
	case *types.Array:
		es := e.sortOf(u.Elem())
		return tb.mk("(as const "+arraySort("Int", es)+")", arraySort("Int", es), e.zero(u.Elem()))
	}
	switch s := e.sortOf(t); s {
	case "Bool":
		return tb.False()
	case "Int":
		return tb.Int(0)
	case "Real":
		return tb.Real(new(big.Rat))
	case "Str":
		return tb.StrLit("")
	case "Slice":
		return tb.MkSlice(tb.Int(0), tb.Int(0), tb.Int(0), tb.Int(0))
	case "Iface":
		return tb.NilIface()
	case "Fn":
		return tb.Const("nilFn", "Fn")
	default:
		panic("zero: sort " + s)
	}
}

var (
	twoTo63 = new(big.Int).Lsh(big.NewInt(1), 63)
	twoTo64 = new(big.Int).Lsh(big.NewInt(1), 64)
)

func intRange(b *types.Basic) (lo, hi *big.Int, ok bool) { // [lo, hi)
	switch b.Kind() {
	case types.Int, types.Int64:
		return new(big.Int).Neg(twoTo63), twoTo63, true
	case types.Int32:
		return big.NewInt(-1 << 31), big.NewInt(1 << 31), true
	case types.Int16:
		return big.NewInt(-1 << 15), big.NewInt(1 << 15), true
	case types.Int8:
		return big.NewInt(-1 << 7), big.NewInt(1 << 7), true
	case types.Uint, types.Uint64, types.Uintptr:
		return big.NewInt(0), twoTo64, true
	case types.Uint32:
		return big.NewInt(0), big.NewInt(1 << 32), true
	case types.Uint16:
		return big.NewInt(0), big.NewInt(1 << 16), true
	case types.Uint8:
		return big.NewInt(0), big.NewInt(1 << 8), true
	}
	return nil, nil, false
}

// wf is the type invariant of a value of Go type t.
func (e *Enc) wf(t types.Type, term *Term, depth int) *Term {
	tb := e.tb
	if depth > 3 {
		return tb.True()
	}
	switch u := t.Underlying().(type) {
	case *types.Basic:
		if u.Info()&types.IsInteger != 0 {
			if lo, hi, ok := intRange(u); ok {
				return tb.And(tb.Le(tb.BigInt(lo), term), tb.Lt(term, tb.BigInt(hi)))
			}
		}
		if u.Info()&types.IsString != 0 {
			return tb.Ge(tb.StrLen(term), tb.Int(0))
		}
	case *types.Pointer, *types.Map, *types.Chan:
		return tb.True()
	case *types.Slice:
		return tb.And(tb.Le(tb.Int(0), tb.SOff(term)), tb.Le(tb.Int(0), tb.SLen(term)), tb.Le(tb.SLen(term), tb.SCap(term)),
			tb.Imp(tb.Eq(tb.SRef(term), tb.Int(0)), tb.Eq(tb.SCap(term), tb.Int(0))))
	case *types.Struct:
		s := e.structSortOf(t, u)
		var cs []*Term
		for i := 0; i < u.NumFields(); i++ {
			cs = append(cs, e.wf(u.Field(i).Type(), tb.Field(s, i, term), depth+1))
		}
		return tb.And(cs...)
	}
	return tb.True()
}

func (e *Enc) fresh(prefix string, t types.Type) *Term {
	c := e.tb.Fresh(prefix, e.sortOf(t))
	e.assumeWF(e.tb.True(), t, c)
	return c
}

func (e *Enc) assumeWF(guard *Term, t types.Type, term *Term) {
	if e.wfDone[term.id] || term.bound {
		return
	}
	e.wfDone[term.id] = true
	if wf := e.wf(t, term, 0); !e.tb.isTrue(wf) {
		e.assume(e.tb.True(), wf) // type invariants hold unconditionally for well-typed values
	}
	// values read from the entry heap (or parameters) refer to objects that existed at entry: refs >= 0
	if isEntryRead(term) {
		if c := e.entryRefs(t, term, 0); !e.tb.isTrue(c) {
			// closedness of the entry heap holds for objects that existed at entry: a field of an object that a callee
			// allocated lives in the same (unmodified) register at a negative reference and may hold anything
			g := e.tb.True()
			for x := term; len(x.args) > 0; x = x.args[0] {
				if x.op == "select" && len(x.args) == 2 && x.args[1].sort == RefSort {
					if _, lit := x.args[1].intLit(); !lit {
						g = e.tb.And(g, e.tb.Ge(x.args[1], e.tb.Int(0)))
					}
				}
			}
			e.assume(g, c)
		}
	} else if refBearing(t, 0) {
		// values read from an unknown (havocked) part of the heap refer to objects that existed when the unknown was
		// introduced, or to objects a callee allocated: never to an object this function allocates later
		for _, rc := range e.fromUnknown(term, 0) {
			if c := e.unknownRefs(t, term, rc.mark, 0); !e.tb.isTrue(c) {
				e.assume(rc.cond, c)
			}
		}
	}
	_ = guard
}

type rootCond struct {
	cond *Term
	mark int
}

func refBearing(t types.Type, depth int) bool {
	if depth > 3 {
		return false
	}
	switch u := t.Underlying().(type) {
	case *types.Pointer, *types.Map, *types.Chan, *types.Slice:
		return true
	case *types.Struct:
		for i := 0; i < u.NumFields(); i++ {
			if refBearing(u.Field(i).Type(), depth+1) {
				return true
			}
		}
	}
	return false
}

// fromUnknown lists the conditions under which the value of a read term comes unchanged out of an unknown constant
// (a havocked register, a call result, a parameter of a function literal), looking through stores and merges.
func (e *Enc) fromUnknown(t *Term, depth int) []rootCond {
	tb := e.tb
	if depth > 8 {
		return nil
	}
	if len(t.args) == 0 {
		if m, ok := e.freshMark[t.op]; ok {
			return []rootCond{{tb.True(), m}}
		}
		return nil
	}
	and := func(c *Term, rs []rootCond) []rootCond {
		var out []rootCond
		for _, r := range rs {
			if cc := tb.And(c, r.cond); !tb.isFalse(cc) {
				out = append(out, rootCond{cc, r.mark})
			}
		}
		return out
	}
	switch {
	case t.op == "select":
		a, k := t.args[0], t.args[1]
		switch a.op {
		case "store":
			same := tb.Eq(k, a.args[1])
			out := and(tb.Not(same), e.fromUnknown(tb.Select(a.args[0], k), depth+1))
			return append(out, and(same, e.fromUnknown(a.args[2], depth+1))...)
		case "ite":
			out := and(a.args[0], e.fromUnknown(tb.Select(a.args[1], k), depth+1))
			return append(out, and(tb.Not(a.args[0]), e.fromUnknown(tb.Select(a.args[2], k), depth+1))...)
		}
		return e.fromUnknown(a, depth+1)
	case t.op == "ite":
		out := and(t.args[0], e.fromUnknown(t.args[1], depth+1))
		return append(out, and(tb.Not(t.args[0]), e.fromUnknown(t.args[2], depth+1))...)
	case strings.HasPrefix(t.op, "elem_") && len(t.args) == 4:
		return e.fromUnknown(tb.Select(tb.Select(t.args[0], t.args[1]), tb.Add(t.args[2], t.args[3])), depth+1)
	case strings.Contains(t.op, ".f") || strings.HasPrefix(t.op, "s.") || strings.HasPrefix(t.op, "unbox_"):
		return e.fromUnknown(t.args[0], depth+1)
	}
	return nil
}

func (e *Enc) unknownRefs(t types.Type, term *Term, mark int, depth int) *Term {
	tb := e.tb
	if depth > 3 {
		return tb.True()
	}
	ok := func(r *Term) *Term { return tb.Or(tb.Ge(r, tb.Int(int64(-mark))), tb.Le(r, tb.Int(-100000))) }
	switch u := t.Underlying().(type) {
	case *types.Pointer, *types.Map, *types.Chan:
		return ok(term)
	case *types.Slice:
		return ok(tb.SRef(term))
	case *types.Struct:
		s := e.structSortOf(t, u)
		var cs []*Term
		for i := 0; i < u.NumFields(); i++ {
			cs = append(cs, e.unknownRefs(u.Field(i).Type(), tb.Field(s, i, term), mark, depth+1))
		}
		return tb.And(cs...)
	}
	return tb.True()
}

// isEntryRead: the term is a projection / select chain over an entry-heap register constant or a parameter.
func isEntryRead(t *Term) bool {
	for len(t.args) > 0 {
		if t.op != "select" && !strings.Contains(t.op, ".f") && !strings.HasPrefix(t.op, "s.") && !strings.HasPrefix(t.op, "unbox_") {
			return false
		}
		t = t.args[0]
	}
	return strings.HasPrefix(t.op, "H0_") || strings.HasPrefix(t.op, "p_")
}

// entryRefs: every reference inside a value that existed at entry denotes nil or an object allocated before entry.
func (e *Enc) entryRefs(t types.Type, term *Term, depth int) *Term {
	tb := e.tb
	if depth > 3 {
		return tb.True()
	}
	switch u := t.Underlying().(type) {
	case *types.Pointer, *types.Map, *types.Chan:
		return tb.Ge(term, tb.Int(0))
	case *types.Slice:
		return tb.Ge(tb.SRef(term), tb.Int(0))
	case *types.Struct:
		s := e.structSortOf(t, u)
		var cs []*Term
		for i := 0; i < u.NumFields(); i++ {
			cs = append(cs, e.entryRefs(u.Field(i).Type(), tb.Field(s, i, term), depth+1))
		}
		return tb.And(cs...)
	}
	return tb.True()
}

// ---------- heap registers ----------

func (e *Enc) fieldReg(s *structSort, u *types.Struct, f int) *regInfo {
	name := fmt.Sprintf("H:%s:%d", s.name, f)
	if r, ok := e.regs[name]; ok {
		return r
	}
	r := &regInfo{name: name, sort: arraySort(RefSort, s.fields[f]), typ: u.Field(f).Type()}
	e.regs[name] = r
	return r
}

func (e *Enc) ptrReg(t types.Type) *regInfo {
	srt := e.sortOf(t)
	name := "P:" + srt
	if r, ok := e.regs[name]; ok {
		return r
	}
	r := &regInfo{name: name, sort: arraySort(RefSort, srt), typ: t}
	e.regs[name] = r
	return r
}

func (e *Enc) elemReg(t types.Type) *regInfo {
	srt := e.sortOf(t)
	name := "E:" + srt
	if r, ok := e.regs[name]; ok {
		return r
	}
	r := &regInfo{name: name, sort: arraySort(RefSort, arraySort("Int", srt)), elem: true, typ: t}
	e.regs[name] = r
	return r
}

func (e *Enc) regInit(ep *epoch, r *regInfo) *Term {
	if ep == nil {
		return e.tb.Const("H0_"+r.name, r.sort)
	}
	if ep.a != nil {
		return e.tb.Ite(ep.cond, e.regInit(ep.b, r), e.regInit(ep.a, r))
	}
	if e.immutableReg(r.name) {
		// never written after construction: every epoch starts from the entry contents
		return e.tb.Const("H0_"+r.name, r.sort)
	}
	c := e.tb.Const(fmt.Sprintf("H%d_%s", ep.id, r.name), r.sort)
	if _, ok := e.freshMark[c.op]; !ok {
		e.freshMark[c.op] = ep.mark
		if ep.cloParent != nil {
			// entry state of a function literal verified at its creation site: a register the enclosing function
			// has not touched before the literal was created
			if is, _ := arrayElemSort(r.sort); is == RefSort && r.elem && e.sortMentionsFn(r.typ, 0) {
				fresh := e.tb.BoundVar("cr", RefSort)
				e.assume(e.tb.True(), e.tb.Forall([]*Term{fresh}, e.tb.Imp(e.tb.Lt(fresh, e.tb.Int(0)), e.tb.Eq(e.tb.Select(c, fresh), e.tb.Select(e.regInit(ep.cloParent.ep, r), fresh)))))
			}
		}
	}
	return c
}

func (e *Enc) newEpoch() *epoch {
	e.nepoch++
	return &epoch{id: e.nepoch, mark: e.nalloc}
}

func (e *Enc) reg(st *State, r *regInfo) *Term {
	if t, ok := st.heap[r.name]; ok {
		return t
	}
	return e.regInit(st.ep, r)
}

func (e *Enc) setReg(st *State, r *regInfo, t *Term) { st.heap[r.name] = t }

// ---------- load / store through addresses ----------

// rootRead reads the whole value stored at the root of an address.
func (e *Enc) rootRead(st *State, a *Addr) *Term {
	tb := e.tb
	if a.elem {
		r := e.elemReg(a.root)
		return e.elemRead(e.reg(st, r), a)
	}
	if u, ok := a.root.Underlying().(*types.Struct); ok {
		s := e.structSortOf(a.root, u)
		fs := make([]*Term, u.NumFields())
		for i := range fs {
			fs[i] = tb.Select(e.reg(st, e.fieldReg(s, u, i)), a.ref)
		}
		return tb.MkStruct(s, fs...)
	}
	return tb.Select(e.reg(st, e.ptrReg(a.root)), a.ref)
}

func (e *Enc) rootWrite(st *State, a *Addr, v *Term) {
	tb := e.tb
	if a.elem {
		r := e.elemReg(a.root)
		h := e.reg(st, r)
		e.setReg(st, r, tb.Store(h, a.ref, tb.Store(tb.Select(h, a.ref), a.idx, v)))
		return
	}
	if u, ok := a.root.Underlying().(*types.Struct); ok {
		s := e.structSortOf(a.root, u)
		for i := 0; i < u.NumFields(); i++ {
			r := e.fieldReg(s, u, i)
			e.setReg(st, r, tb.Store(e.reg(st, r), a.ref, tb.Field(s, i, v)))
		}
		return
	}
	r := e.ptrReg(a.root)
	e.setReg(st, r, tb.Store(e.reg(st, r), a.ref, v))
}

// project / inject walk a path inside a value term.
func (e *Enc) project(v *Term, path []step) *Term {
	for _, p := range path {
		switch p.kind {
		case stField:
			s, _ := e.structOf(p.cont)
			v = e.tb.Field(s, p.field, v)
		case stIndex:
			v = e.tb.Select(v, p.idx)
		}
	}
	return v
}

func (e *Enc) inject(v *Term, path []step, nv *Term) *Term {
	if len(path) == 0 {
		return nv
	}
	p := path[0]
	switch p.kind {
	case stField:
		s, _ := e.structOf(p.cont)
		return e.tb.WithField(s, v, p.field, e.inject(e.tb.Field(s, p.field, v), path[1:], nv))
	default:
		return e.tb.Store(v, p.idx, e.inject(e.tb.Select(v, p.idx), path[1:], nv))
	}
}

func (e *Enc) load(st *State, a *Addr) *Term {
	tb := e.tb
	// fast path: heap struct, first step is a field: read only that field register
	if !a.elem && len(a.path) > 0 && a.path[0].kind == stField {
		if u, ok := a.root.Underlying().(*types.Struct); ok {
			s := e.structSortOf(a.root, u)
			r := e.fieldReg(s, u, a.path[0].field)
			return e.project(tb.Select(e.reg(st, r), a.ref), a.path[1:])
		}
	}
	return e.project(e.rootRead(st, a), a.path)
}

func (e *Enc) store(st *State, a *Addr, v *Term) {
	tb := e.tb
	if !a.elem && len(a.path) > 0 && a.path[0].kind == stField {
		if u, ok := a.root.Underlying().(*types.Struct); ok {
			s := e.structSortOf(a.root, u)
			r := e.fieldReg(s, u, a.path[0].field)
			if e.immutableReg(r.name) {
				// declared `immutable`: only the code that constructs the object may write the field
				if n, isLit := a.ref.intLit(); !isLit || n.Sign() >= 0 {
					q := e.oblige("frame", "immutable:"+r.name, st, tb.Lt(a.ref, tb.Int(0)), token.NoPos)
					q.Text = "a field declared immutable is written in an object this function did not allocate"
				}
			}
			h := e.reg(st, r)
			old := tb.Select(h, a.ref)
			e.setReg(st, r, tb.Store(h, a.ref, e.inject(old, a.path[1:], v)))
			return
		}
	}
	if len(a.path) == 0 {
		e.rootWrite(st, a, v)
		return
	}
	e.rootWrite(st, a, e.inject(e.rootRead(st, a), a.path, v))
}

// addrOf gives the address a pointer value designates.
func (e *Enc) addrOf(v Val, pointee types.Type) *Addr {
	if v.Addr != nil {
		return v.Addr
	}
	return &Addr{ref: v.t(), root: pointee}
}

// typeAt returns the type of the location designated by an address.
func addrType(a *Addr) types.Type {
	t := a.root
	for _, p := range a.path {
		switch p.kind {
		case stField:
			t = p.cont.Underlying().(*types.Struct).Field(p.field).Type()
		case stIndex:
			t = p.cont.Underlying().(*types.Array).Elem()
		}
	}
	return t
}

// ---------- allocation ----------

func (e *Enc) newAlloc(t types.Type, isArray bool) *Term {
	e.nalloc++
	r := e.tb.Int(int64(-e.nalloc))
	e.allocs = append(e.allocs, &allocInfo{ref: r, typ: t, isArray: isArray})
	return r
}

// freshRefFromCallee constrains a symbolic ref to be a new object allocated by a callee.
func (e *Enc) assumeCalleeFresh(guard *Term, r *Term) {
	tb := e.tb
	e.nevent++
	lo := int64(-100000 * (e.nevent + 1))
	hi := int64(-100000 * e.nevent)
	e.assume(guard, tb.And(tb.Lt(tb.Int(lo), r), tb.Lt(r, tb.Int(hi))))
}

func (e *Enc) alive0(r *Term) *Term { return e.tb.Gt(r, e.tb.Int(0)) }

// ---------- frames ----------

type Frame struct {
	fn           *ssa.Function
	vals         map[ssa.Value]Val
	out          map[*ssa.BasicBlock]State
	edge         map[[2]*ssa.BasicBlock]*Term
	rets         []retInfo
	parent       *Frame
	callSite     *ssa.Call // the call this frame was inlined for
	entry        State
	con          *FuncContract
	loops        map[*ssa.BasicBlock]int // loop head -> ordinal (source order)
	inlined      bool
	panics       []*Term // reach conditions of panics (for contracts: not a normal return)
	oldEnv       *evalEnv
	assertDone   map[int]bool
	ghostDone    map[int]bool
	pendingGhost []ghostStmt
	pendingAfter []pendingAssert
	afterDone    map[int]bool
	defers       []deferred
	pendingInv   map[*ssa.BasicBlock]*pendingLoop
	variant0     map[*ssa.BasicBlock]*Term // value of the loop variant at the loop head
	args         []Val
	cur          *ssa.BasicBlock      // block being executed
	rangeCount   map[*ssa.Range]*Term // ghost iteration counter of range-over-string loops
}

type retInfo struct {
	st   State
	vals []*Term
	pos  token.Pos
}

func (e *Enc) val(fr *Frame, v ssa.Value) Val {
	if x, ok := fr.vals[v]; ok {
		return x
	}
	tb := e.tb
	switch c := v.(type) {
	case *ssa.Const:
		return Val{T: []*Term{e.constTerm(c)}}
	case *ssa.Function:
		return Val{T: []*Term{e.fnConst(c)}}
	case *ssa.Global:
		return Val{T: []*Term{tb.Const("glob_"+c.Pkg.Pkg.Name()+"."+c.Name(), RefSort)}, Addr: &Addr{glob: c, ref: tb.Const("glob_"+c.Pkg.Pkg.Name()+"."+c.Name(), RefSort), root: c.Type().(*types.Pointer).Elem()}}
	case *ssa.Builtin:
		return Val{T: []*Term{tb.Const("nilFn", "Fn")}}
	}
	e.note(fmt.Sprintf("val: unbound %T %s", v, v.Name()))
	x := Val{T: []*Term{e.fresh("unbound", v.Type())}}
	fr.vals[v] = x
	return x
}

func (e *Enc) fnConst(f *ssa.Function) *Term {
	n := "fn_" + f.String()
	c := e.tb.Const(n, "Fn")
	if !e.wfDone[c.id] {
		e.wfDone[c.id] = true
		e.assume(e.tb.True(), e.tb.Not(e.tb.Eq(c, e.tb.Const("nilFn", "Fn"))))
	}
	return c
}

func (e *Enc) constTerm(c *ssa.Const) *Term {
	tb := e.tb
	if c.Value == nil {
		return e.zero(c.Type())
	}
	switch e.sortOf(c.Type()) {
	case "Bool":
		return tb.Bool(constant.BoolVal(c.Value))
	case "Int":
		v := constant.ToInt(c.Value)
		if v.Kind() == constant.Int {
			if bi, ok := constant.Val(v).(*big.Int); ok {
				return tb.BigInt(bi)
			}
			if i, ok := constant.Int64Val(v); ok {
				return tb.Int(i)
			}
		}
		return tb.Fresh("bigconst", "Int")
	case "Real":
		return tb.Real(ratOf(c.Value))
	case "Str":
		return tb.StrLit(constant.StringVal(c.Value))
	}
	return e.zero(c.Type())
}

func ratOf(v constant.Value) *big.Rat {
	v = constant.ToFloat(v)
	switch x := constant.Val(v).(type) {
	case *big.Rat:
		return x
	case *big.Float:
		r, _ := x.Rat(nil)
		return r
	case int64:
		return new(big.Rat).SetInt64(x)
	case *big.Int:
		return new(big.Rat).SetInt(x)
	}
	f, _ := constant.Float64Val(v)
	r := new(big.Rat)
	r.SetFloat64(f)
	return r
}

func isBackEdge(p, b *ssa.BasicBlock) bool { return b.Dominates(p) }

func rpo(fn *ssa.Function) []*ssa.BasicBlock {
	seen := map[*ssa.BasicBlock]bool{}
	var order []*ssa.BasicBlock
	var dfs func(b *ssa.BasicBlock)
	dfs = func(b *ssa.BasicBlock) {
		seen[b] = true
		for _, s := range b.Succs {
			if !seen[s] && !isBackEdge(b, s) {
				dfs(s)
			}
		}
		order = append(order, b)
	}
	dfs(fn.Blocks[0])
	for i, j := 0, len(order)-1; i < j; i, j = i+1, j-1 {
		order[i], order[j] = order[j], order[i]
	}
	return order
}

func loopBody(head *ssa.BasicBlock) map[*ssa.BasicBlock]bool {
	body := map[*ssa.BasicBlock]bool{head: true}
	var work []*ssa.BasicBlock
	for _, p := range head.Preds {
		if isBackEdge(p, head) && !body[p] {
			body[p] = true
			work = append(work, p)
		}
	}
	for len(work) > 0 {
		b := work[len(work)-1]
		work = work[:len(work)-1]
		for _, p := range b.Preds {
			if !body[p] {
				body[p] = true
				work = append(work, p)
			}
		}
	}
	return body
}

func isLoopHead(b *ssa.BasicBlock) bool {
	for _, p := range b.Preds {
		if isBackEdge(p, b) {
			return true
		}
	}
	return false
}

// loopOrdinals numbers the loop heads of a function in source order (1-based).
func loopOrdinals(fn *ssa.Function) map[*ssa.BasicBlock]int {
	var heads []*ssa.BasicBlock
	for _, b := range fn.Blocks {
		if isLoopHead(b) {
			heads = append(heads, b)
		}
	}
	pos := func(b *ssa.BasicBlock) token.Pos {
		best := token.NoPos
		for bb := range loopBody(b) {
			for _, in := range bb.Instrs {
				if p := in.Pos(); p.IsValid() && (!best.IsValid() || p < best) {
					best = p
				}
			}
		}
		return best
	}
	sort.SliceStable(heads, func(i, j int) bool { return pos(heads[i]) < pos(heads[j]) })
	m := map[*ssa.BasicBlock]int{}
	for i, h := range heads {
		m[h] = i + 1
	}
	return m
}

// encodeFunc symbolically executes fn from state `in`.
func (e *Enc) encodeFunc(fn *ssa.Function, args []Val, bindings []Val, in State, parent *Frame, con *FuncContract, setup func(fr *Frame)) ([]*Term, State, *Frame) {
	fr := &Frame{fn: fn, vals: map[ssa.Value]Val{}, out: map[*ssa.BasicBlock]State{}, edge: map[[2]*ssa.BasicBlock]*Term{}, parent: parent, con: con, rangeCount: map[*ssa.Range]*Term{}, assertDone: map[int]bool{}, ghostDone: map[int]bool{}, afterDone: map[int]bool{}, pendingInv: map[*ssa.BasicBlock]*pendingLoop{}, variant0: map[*ssa.BasicBlock]*Term{}}
	fr.loops = loopOrdinals(fn)
	fr.inlined = parent != nil && con == nil
	fr.args = args
	for i, p := range fn.Params {
		fr.vals[p] = args[i]
	}
	for i, fv := range fn.FreeVars {
		fr.vals[fv] = bindings[i]
	}
	fr.entry = in.clone()
	if setup != nil {
		setup(fr)
	}
	e.stack = append(e.stack, fn)
	defer func() { e.stack = e.stack[:len(e.stack)-1] }()

	for _, b := range rpo(fn) {
		fr.cur = b
		var st State
		if b.Index == 0 {
			st = in.clone()
		} else {
			st = e.mergePreds(fr, b)
		}
		if isLoopHead(b) {
			e.cutLoop(fr, b, &st)
		} else {
			for _, in := range b.Instrs {
				if phi, ok := in.(*ssa.Phi); ok {
					fr.vals[phi] = e.phiVal(fr, b, phi)
				}
			}
		}
		for _, in := range b.Instrs {
			if _, ok := in.(*ssa.Phi); ok {
				continue
			}
			e.instr(fr, b, in, &st)
		}
		fr.out[b] = st
	}
	if parent == nil && con != nil && con.opts["models-recover"] == "true" && fn.Recover != nil {
		e.recoverPath(fr, in)
	}
	if len(fr.rets) == 0 {
		return nil, State{reach: e.tb.False(), heap: in.heap, ep: in.ep}, fr
	}
	out := fr.rets[0].st.clone()
	res := append([]*Term{}, fr.rets[0].vals...)
	for _, r := range fr.rets[1:] {
		out = e.mergeStates(out, r.st)
		for i := range res {
			res[i] = e.tb.Ite(r.st.reach, r.vals[i], res[i])
		}
	}
	return res, out, fr
}

func (e *Enc) mergeStates(a, b State) State {
	tb := e.tb
	out := State{reach: tb.Or(a.reach, b.reach), heap: map[string]*Term{}, ep: a.ep}
	if a.ep != b.ep {
		out.ep = &epoch{cond: b.reach, a: a.ep, b: b.ep}
	}
	for k := range a.heap {
		out.heap[k] = tb.Ite(b.reach, e.reg(&b, e.regs[k]), e.reg(&a, e.regs[k]))
	}
	for k := range b.heap {
		if _, ok := a.heap[k]; !ok {
			out.heap[k] = tb.Ite(b.reach, e.reg(&b, e.regs[k]), e.reg(&a, e.regs[k]))
		}
	}
	return out
}

func (e *Enc) edgeCond(fr *Frame, p, b *ssa.BasicBlock) *Term {
	if c, ok := fr.edge[[2]*ssa.BasicBlock{p, b}]; ok {
		return c
	}
	ps, ok := fr.out[p]
	if !ok {
		return e.tb.False()
	}
	return ps.reach
}

func (e *Enc) mergePreds(fr *Frame, b *ssa.BasicBlock) State {
	var st State
	first := true
	for _, p := range b.Preds {
		if isBackEdge(p, b) {
			continue
		}
		ps, ok := fr.out[p]
		if !ok {
			continue
		}
		s := ps.clone()
		s.reach = e.edgeCond(fr, p, b)
		if first {
			st = s
			first = false
		} else {
			st = e.mergeStates(st, s)
		}
	}
	if first {
		return State{reach: e.tb.False(), heap: map[string]*Term{}, ep: fr.entry.ep}
	}
	return st
}

func (e *Enc) phiVal(fr *Frame, b *ssa.BasicBlock, phi *ssa.Phi) Val {
	var terms []*Term
	var addr *Addr
	first := true
	for i, p := range b.Preds {
		if isBackEdge(p, b) {
			continue
		}
		if _, ok := fr.out[p]; !ok {
			continue
		}
		v := e.val(fr, phi.Edges[i])
		if first {
			terms = append([]*Term{}, v.T...)
			addr = v.Addr
			first = false
		} else {
			c := e.edgeCond(fr, p, b)
			for k := range terms {
				terms[k] = e.tb.Ite(c, v.T[k], terms[k])
			}
			if addr != v.Addr {
				addr = nil
			}
		}
	}
	if first {
		return Val{T: []*Term{e.fresh("phi", phi.Type())}}
	}
	return Val{T: terms, Addr: addr}
}

// ---------- loops ----------

// loopWrites statically collects what a loop body may write.
type writeSet struct {
	scope *ssa.Function // if set: stores into stack variables of other functions are ignored
	all   bool
	regs  map[string]bool
	elems bool
}

func (e *Enc) cutLoop(fr *Frame, head *ssa.BasicBlock, st *State) {
	tb := e.tb
	ord := fr.loops[head]
	entryVals := map[*ssa.Phi]Val{}
	var phis []*ssa.Phi
	for _, in := range head.Instrs {
		if phi, ok := in.(*ssa.Phi); ok {
			entryVals[phi] = e.phiVal(fr, head, phi)
			phis = append(phis, phi)
		}
	}
	for _, phi := range phis {
		fr.vals[phi] = entryVals[phi]
	}
	invs := e.loopInvs(fr, ord)
	for k, inv := range invs {
		env := e.envAt(fr, st, head)
		t, err := env.evalBool(inv.expr)
		if err != nil {
			e.contractError(fr, fmt.Sprintf("loop%d.inv%d", ord, k+1), err)
			continue
		}
		q := e.oblige("loop-entry", fmt.Sprintf("loop%d.inv%d", ord, k+1), st, t, token.NoPos)
		q.Text = inv.text
		e.addProps(q, fr.con, inv.props)
	}
	ws0 := e.loopWrites(fr, head)
	frameRegs := e.loopFrameRegs(fr, ws0)
	if len(frameRegs) > 0 {
		if f := e.loopFrame(fr, st, frameRegs); f != nil && !tb.isTrue(f) {
			e.oblige("loop-entry", fmt.Sprintf("loop%d.frame", ord), st, f, token.NoPos).Text = "implicit invariant: the function's frame (assigns clause) holds at the loop head"
		}
	}
	// havoc what the body writes
	for _, phi := range phis {
		fr.vals[phi] = Val{T: []*Term{e.fresh("loop_"+phi.Comment, phi.Type())}}
	}
	for b := range loopBody(head) {
		for _, in := range b.Instrs {
			if nx, ok := in.(*ssa.Next); ok && (nx.IsString || e.completeMapRange(nx)) {
				c := e.tb.Fresh("rangecount", "Int")
				e.assume(e.tb.True(), e.tb.Ge(c, e.tb.Int(0)))
				fr.rangeCount[nx.Iter.(*ssa.Range)] = c
			}
		}
	}
	ws := e.loopWrites(fr, head)
	e.havocWrites(st, ws, fmt.Sprintf("loop%d", ord))
	e.havocYield(st)
	// automatic facts of go/ssa's range-over-slice lowering: -1 <= rangeindex
	for _, phi := range phis {
		if phi.Comment == "rangeindex" {
			e.assume(st.reach, tb.Le(tb.Int(-1), fr.vals[phi].t()))
		}
	}
	// automatic inductive bounds of counting loops: a variable that starts at a literal c and is only ever
	// incremented (decremented) by positive literals stays >= c (<= c)
	for _, phi := range phis {
		if lo, up, ok := countingPhi(head, phi); ok {
			if up {
				e.assume(st.reach, tb.Le(tb.Int(lo), fr.vals[phi].t()))
			} else {
				e.assume(st.reach, tb.Le(fr.vals[phi].t(), tb.Int(lo)))
			}
		}
	}
	if len(frameRegs) > 0 {
		if f := e.loopFrame(fr, st, frameRegs); f != nil {
			e.assume(st.reach, f)
		}
	}
	for k, inv := range invs {
		env := e.envAt(fr, st, head)
		t, err := env.evalBool(inv.expr)
		if err != nil {
			continue
		}
		e.assume(st.reach, t)
		_ = k
	}
	if fr.con != nil && fr.con.variants != nil {
		if vc, ok := fr.con.variants[ord]; ok {
			env := e.envAt(fr, st, head)
			v, err := env.evalAny(vc.expr)
			if err != nil || v.t == nil || v.t.sort != "Int" {
				e.contractError(fr, fmt.Sprintf("loop%d.decreases", ord), fmt.Errorf("variant must be an int expression: %v", err))
			} else {
				fr.variant0[head] = v.t
			}
		}
	}
}

// loopFrameRegs: the registers a loop havocs for which the enclosing function's frame is carried as implicit invariant.
func (e *Enc) loopFrameRegs(fr *Frame, ws *writeSet) []string {
	if fr.con == nil || fr.con.assigns == nil || fr.parent != nil || ws.all {
		return nil
	}
	var names []string
	for n := range ws.regs {
		if _, ok := e.regs[n]; ok {
			names = append(names, n)
		}
	}
	sort.Strings(names)
	return names
}

func (e *Enc) loopFrame(fr *Frame, st *State, regs []string) *Term {
	allow, err := e.frameAllow(fr, fr.con)
	if err != nil {
		return nil
	}
	var cs []*Term
	for _, n := range regs {
		cs = append(cs, e.frameFormula(fr, allow, st, n))
	}
	return e.tb.And(cs...)
}

// backEdgeCheck collects, per loop and invariant, the proof obligation "preserved along this back edge"; the
// obligations of all back edges of a loop are conjoined into one (named by loop and invariant only, so that
// restructuring the loop body does not rename them) and emitted when the last back edge has been reached.
func (e *Enc) backEdgeCheck(fr *Frame, p, head *ssa.BasicBlock, st State) {
	tb := e.tb
	ord := fr.loops[head]
	invs := e.loopInvs(fr, ord)
	pend := fr.pendingInv[head]
	if pend == nil {
		pend = &pendingLoop{conj: map[string][]*Term{}, text: map[string]string{}}
		for _, pp := range head.Preds {
			if isBackEdge(pp, head) {
				pend.want++
			}
		}
		fr.pendingInv[head] = pend
	}
	add := func(label, text string, t *Term) {
		if _, ok := pend.conj[label]; !ok {
			pend.order = append(pend.order, label)
		}
		pend.conj[label] = append(pend.conj[label], tb.Imp(st.reach, t))
		pend.text[label] = text
	}
	if regs := e.loopFrameRegs(fr, e.loopWrites(fr, head)); len(regs) > 0 {
		if f := e.loopFrame(fr, &st, regs); f != nil && !tb.isTrue(f) {
			add(fmt.Sprintf("loop%d.frame", ord), "implicit invariant: the function's frame (assigns clause) is preserved by the loop body", f)
		}
	}
	if len(invs) > 0 {
		saved := map[*ssa.Phi]Val{}
		for _, in := range head.Instrs {
			if phi, ok := in.(*ssa.Phi); ok {
				saved[phi] = fr.vals[phi]
				for i, pp := range head.Preds {
					if pp == p {
						fr.vals[phi] = e.val(fr, phi.Edges[i])
					}
				}
			}
		}
		for k, inv := range invs {
			env := e.envAt(fr, &st, head)
			t, err := env.evalBool(inv.expr)
			if err != nil {
				e.contractError(fr, fmt.Sprintf("loop%d.inv%d", ord, k+1), err)
				continue
			}
			add(fmt.Sprintf("loop%d.inv%d", ord, k+1), inv.text, t)
		}
		for phi, v := range saved {
			fr.vals[phi] = v
		}
	}
	if v0, ok := fr.variant0[head]; ok {
		vc := fr.con.variants[ord]
		saved := map[*ssa.Phi]Val{}
		for _, in := range head.Instrs {
			if phi, ok := in.(*ssa.Phi); ok {
				saved[phi] = fr.vals[phi]
				for i, pp := range head.Preds {
					if pp == p {
						fr.vals[phi] = e.val(fr, phi.Edges[i])
					}
				}
			}
		}
		env := e.envAt(fr, &st, head)
		v, err := env.evalAny(vc.expr)
		for phi, sv := range saved {
			fr.vals[phi] = sv
		}
		if err == nil && v.t != nil && v.t.sort == "Int" {
			add(fmt.Sprintf("loop%d.decreases", ord), "termination: the variant `"+vc.text+"` is non-negative and strictly decreases with every iteration", tb.And(tb.Le(tb.Int(0), v0), tb.Lt(v.t, v0)))
		}
	}
	pend.seen++
	if pend.seen == pend.want {
		all := State{reach: tb.True(), heap: map[string]*Term{}}
		for _, label := range pend.order {
			q := e.oblige("loop-preserved", label, &all, tb.And(pend.conj[label]...), token.NoPos, e.inputVals()...)
			q.Text = pend.text[label]
			for k, inv := range invs {
				if label == fmt.Sprintf("loop%d.inv%d", ord, k+1) {
					e.addProps(q, fr.con, inv.props)
				}
			}
		}
	}
}

type pendingLoop struct {
	want, seen int
	order      []string
	conj       map[string][]*Term
	text       map[string]string
}

func (e *Enc) loopInvs(fr *Frame, ord int) []clause {
	if fr.con == nil {
		return nil
	}
	return fr.con.invs[ord]
}

func (e *Enc) loopWrites(fr *Frame, head *ssa.BasicBlock) *writeSet {
	ws := &writeSet{regs: map[string]bool{}}
	for b := range loopBody(head) {
		for _, in := range b.Instrs {
			e.instrWrites(in, ws, 0)
		}
	}
	return ws
}

func (e *Enc) instrWrites(in ssa.Instruction, ws *writeSet, depth int) {
	switch x := in.(type) {
	case *ssa.Store:
		if ws.scope != nil {
			// a store into a variable of another function's activation (a callee inlined for the write analysis, the
			// body of a callback literal): that variable is created per call and cannot be observed by the unit
			if al := rootAlloc(x.Addr); al != nil && al.Parent() != ws.scope && !al.Heap {
				return
			}
		}
		e.addrWrites(x.Addr, x.Val.Type(), ws)
	case *ssa.MapUpdate:
		ws.regs["MAPS"] = true
	case *ssa.Send:
		// a channel send writes no memory the unit can read
	case *ssa.Go, *ssa.Defer:
		ws.all = true
	case ssa.CallInstruction:
		c := x.Common()
		if c.IsInvoke() {
			if isLibraryType(c.Value.Type()) {
				return
			}
			if ic := e.L.ifaceContract(c.Value.Type(), c.Method.Name()); ic != nil {
				if ic.assignsNothing() {
					return
				}
				if ic.assigns != nil {
					if sig, ok := c.Method.Type().(*types.Signature); ok && e.typeContractRegs(ic, sig, c.Value.Type(), true, ws) {
						return
					}
				}
			}
			ws.all = true
			return
		}
		if bi, ok := c.Value.(*ssa.Builtin); ok {
			switch bi.Name() {
			case "append", "copy":
				if len(c.Args) > 0 {
					if sl, ok := c.Args[0].Type().Underlying().(*types.Slice); ok {
						ws.regs[e.elemReg(sl.Elem()).name] = true
					}
				}
			case "delete", "clear":
				ws.regs["MAPS"] = true
			}
			return
		}
		callee := c.StaticCallee()
		if callee == nil {
			if tc := e.L.typeContract(c.Value.Type()); tc != nil {
				if tc.assignsNothing() {
					return
				}
				if tc.assigns != nil {
					if sig, ok := c.Value.Type().Underlying().(*types.Signature); ok && e.typeContractRegs(tc, sig, c.Value.Type(), false, ws) {
						return
					}
				}
			}
			if con := e.topCon(); con != nil && len(con.pureParams) > 0 {
				switch v := c.Value.(type) {
				case *ssa.Parameter:
					if con.pureParams[v.Name()] {
						return
					}
				case *ssa.UnOp:
					if fv, ok := v.X.(*ssa.FreeVar); ok && con.pureParams[fv.Name()] {
						return
					}
				}
			}
			ws.all = true
			return
		}
		if !inRepo(callee) {
			if spec := libSpecFor(callee); spec == nil || spec.writes {
				if spec == nil && !libraryPure(callee) {
					ws.all = true
				} else if spec != nil && spec.writes {
					ws.all = true
				}
			}
			return
		}
		if con := e.contractAtCall(callee); con != nil {
			if con.assigns == nil {
				ws.all = true
			} else if !con.assignsNothing() {
				// precise havoc happens at the call; here we need the static register set
				for _, loc := range con.assigns {
					if !e.assignRegs(callee, loc, ws) {
						ws.all = true
					}
				}
			}
			return
		}
		if depth < 4 && callee.Blocks != nil {
			for _, b := range callee.Blocks {
				for _, ci := range b.Instrs {
					e.instrWrites(ci, ws, depth+1)
				}
			}
			return
		}
		ws.all = true
	}
}

func (e *Enc) addrWrites(a ssa.Value, vt types.Type, ws *writeSet) {
	switch x := a.(type) {
	case *ssa.FieldAddr:
		// find the root container
		root := x
		for {
			if fa, ok := root.X.(*ssa.FieldAddr); ok {
				root = fa
				continue
			}
			break
		}
		if ia, ok := root.X.(*ssa.IndexAddr); ok {
			e.addrWrites(ia, nil, ws)
			return
		}
		pt := root.X.Type().Underlying().(*types.Pointer).Elem()
		if u, ok := pt.Underlying().(*types.Struct); ok {
			s := e.structSortOf(pt, u)
			ws.regs[e.fieldReg(s, u, root.Field).name] = true
		}
	case *ssa.IndexAddr:
		switch t := x.X.Type().Underlying().(type) {
		case *types.Slice:
			ws.regs[e.elemReg(t.Elem()).name] = true
		case *types.Pointer:
			if arr, ok := t.Elem().Underlying().(*types.Array); ok {
				// element of an array object: either an element register (allocated arrays) or a field of a struct
				ws.regs[e.elemReg(arr.Elem()).name] = true
				if fa, ok := x.X.(*ssa.FieldAddr); ok {
					e.addrWrites(fa, nil, ws)
				}
			}
		}
	case *ssa.Global:
		ws.regs["G:"+x.Name()] = true
	default:
		// store through a pointer value
		pt, ok := a.Type().Underlying().(*types.Pointer)
		if !ok {
			ws.all = true
			return
		}
		if u, ok := pt.Elem().Underlying().(*types.Struct); ok {
			s := e.structSortOf(pt.Elem(), u)
			for i := 0; i < u.NumFields(); i++ {
				ws.regs[e.fieldReg(s, u, i).name] = true
			}
		} else {
			ws.regs[e.ptrReg(pt.Elem()).name] = true
		}
	}
}

func (e *Enc) havocWrites(st *State, ws *writeSet, why string) {
	if ws.all {
		e.havocAll(st, why)
		return
	}
	var names []string
	for n := range ws.regs {
		names = append(names, n)
	}
	sort.Strings(names)
	for _, n := range names {
		r, ok := e.regs[n]
		if !ok {
			continue
		}
		e.setReg(st, r, e.tb.Fresh("hv_"+why+"_"+n, r.sort))
	}
}

// havocAll replaces every register that is known so far; registers first touched later are still covered
// because a havoc epoch bumps the name of the initial constant.
func (e *Enc) havocAll(st *State, why string) {
	old := st.clone()
	st.heap = map[string]*Term{}
	st.ep = e.newEpoch()
	// registers declared `immutable` (fields that are not written after construction) keep their contents
	for n, t := range old.heap {
		if e.immutableReg(n) || strings.HasPrefix(n, "G:$yield") {
			st.heap[n] = t
		}
	}
	// objects allocated by this unit whose reference never left it keep their contents
	for _, a := range e.allocs {
		if a.escaped {
			continue
		}
		for _, r := range e.allocRegs(a) {
			nw := e.reg(st, r)
			e.setReg(st, r, e.tb.Store(nw, a.ref, e.tb.Select(e.reg(&old, r), a.ref)))
		}
	}
	e.appendOnlyAfterHavoc(&old, st)
	e.note("havoc of the whole heap (" + why + ")")
}

func (e *Enc) allocRegs(a *allocInfo) []*regInfo {
	if a.isArray {
		return []*regInfo{e.elemReg(a.typ)}
	}
	if u, ok := a.typ.Underlying().(*types.Struct); ok {
		s := e.structSortOf(a.typ, u)
		var rs []*regInfo
		for i := 0; i < u.NumFields(); i++ {
			rs = append(rs, e.fieldReg(s, u, i))
		}
		return rs
	}
	return []*regInfo{e.ptrReg(a.typ)}
}

func (e *Enc) regHoldsAlloc(r *regInfo, a *allocInfo) bool {
	if a.isArray {
		return r.elem && r.name == "E:"+e.sortOf(a.typ)
	}
	if r.elem {
		return false
	}
	if u, ok := a.typ.Underlying().(*types.Struct); ok {
		s := e.structSortOf(a.typ, u)
		return strings.HasPrefix(r.name, "H:"+s.name+":")
	}
	return r.name == "P:"+e.sortOf(a.typ)
}

// markEscaped marks allocations whose reference occurs in a value that leaves the unit's control.
func (e *Enc) markEscaped(t *Term, depth int) {
	if depth > 4 {
		return
	}
	if n, ok := t.intLit(); ok && n.Sign() < 0 {
		for _, a := range e.allocs {
			if a.ref == t {
				a.escaped = true
			}
		}
		return
	}
	for _, a := range t.args {
		e.markEscaped(a, depth+1)
	}
}

// ---------- source names ----------

// exprText returns the source text of the smallest expression of the wanted kind that encloses pos.
func (e *Enc) srcText(fn *ssa.Function, pos token.Pos, want func(ast.Node) bool) string {
	if !pos.IsValid() {
		return ""
	}
	f := e.L.fileAt(pos)
	if f == nil {
		return ""
	}
	var best ast.Node
	ast.Inspect(f, func(n ast.Node) bool {
		if n == nil {
			return false
		}
		if n.Pos() <= pos && pos < n.End() {
			if want(n) {
				best = n
			}
			return true
		}
		return false
	})
	if best == nil {
		return ""
	}
	return e.L.nodeText(best)
}

// edgeLabel names a back edge by the source text of the last call/statement executed before jumping back, so that
// obligations keep their names when unrelated code moves.
func (e *Enc) edgeLabel(fr *Frame, p *ssa.BasicBlock) string {
	b := p
	for depth := 0; depth < 4 && b != nil; depth++ {
		for i := len(b.Instrs) - 1; i >= 0; i-- {
			in := b.Instrs[i]
			switch in.(type) {
			case *ssa.Call, *ssa.Store, *ssa.MapUpdate:
				if in.Pos().IsValid() {
					t := e.srcText(fr.fn, in.Pos(), func(n ast.Node) bool {
						switch n.(type) {
						case *ast.CallExpr, *ast.AssignStmt, *ast.IncDecStmt:
							return true
						}
						return false
					})
					if t != "" {
						if len(t) > 40 {
							t = t[:40]
						}
						return "@" + t
					}
				}
			}
		}
		if len(b.Preds) == 1 {
			b = b.Preds[0]
		} else {
			break
		}
	}
	return ""
}

// applyTypeInvs handles the invariants of a value of a type with `type-invariant` / `representation` clauses.
// mode "box": invariants are proved (obligations), representations are assumed (definitions of the ghost view of a new value).
// mode "assume": both are assumed (receiver at method entry, value obtained by a type assertion).
func (e *Enc) applyTypeInvs(fr *Frame, st *State, t types.Type, val *Term, mode string, guard *Term, pos token.Pos) {
	invs := e.L.typeInvsFor(t)
	if len(invs) == 0 {
		return
	}
	for k, ti := range invs {
		env := &evalEnv{e: e, st: st, old: st, vars: map[string]SV{"self": {t: val, typ: t}}, bound: map[string]SV{}}
		env.pkg = e.L.typesPkg(ti.pkg)
		c, err := env.evalBool(ti.cl.expr)
		if err != nil {
			e.contractError(fr, "type-invariant:"+ti.name, err)
			continue
		}
		if mode == "box" && !ti.rep {
			s2 := st.clone()
			s2.reach = e.tb.And(st.reach, guard)
			q := e.oblige("typeinv", fmt.Sprintf("%s.inv%d", ti.name, k+1), &s2, c, pos, e.inputVals()...)
			q.Text = ti.cl.text
			continue
		}
		e.assume(e.tb.And(st.reach, guard), c)
	}
}

// elemRead reads a slice element. When the index is `off + rel` with a symbolic offset, the read is expressed through
// the function elem_S(heap, ref, off, rel) (axiom: = heap[ref][off+rel]) so that quantified facts about slice elements
// have an arithmetic-free trigger and are instantiated for indices like i+1.
func (e *Enc) elemRead(h *Term, a *Addr) *Term {
	// look through stores with a symbolic row index by case distinction, so that elem_S is always applied to an
	// unmodified heap constant (quantified facts about that heap then match syntactically)
	if a.off != nil && a.rel != nil {
		if _, isLit := a.off.intLit(); !isLit {
			if r := e.elemReadThrough(h, a, 0); r != nil {
				return r
			}
		}
	}
	return e.elemReadBase(h, a)
}

func (e *Enc) elemReadThrough(h *Term, a *Addr, depth int) *Term {
	tb := e.tb
	if depth > 12 {
		return nil
	}
	switch h.op {
	case "store":
		b, r2, row := h.args[0], h.args[1], h.args[2]
		if r2 == a.ref {
			return e.rowRead(row, b, r2, a, depth+1)
		}
		under := e.elemReadThrough(b, a, depth+1)
		if under == nil {
			return nil
		}
		if tb.knownDistinct(r2, a.ref) {
			return under
		}
		rv := e.rowRead(row, b, r2, a, depth+1)
		if rv == nil {
			return nil
		}
		return tb.Ite(tb.Eq(a.ref, r2), rv, under)
	case "ite":
		x, y := e.elemReadThrough(h.args[1], a, depth+1), e.elemReadThrough(h.args[2], a, depth+1)
		if x == nil || y == nil {
			return nil
		}
		return tb.Ite(h.args[0], x, y)
	}
	if len(h.args) == 0 {
		return e.elemReadBase(h, a)
	}
	return nil
}

// rowRead reads index a.idx of a row term that was stored at row index r2 of heap b (a.ref == r2 holds where the result is used).
func (e *Enc) rowRead(row, b, r2 *Term, a *Addr, depth int) *Term {
	tb := e.tb
	if depth > 24 {
		return nil
	}
	switch row.op {
	case "store":
		under := e.rowRead(row.args[0], b, r2, a, depth+1)
		if under == nil {
			return nil
		}
		if row.args[1] == a.idx {
			return row.args[2]
		}
		if tb.knownDistinct(row.args[1], a.idx) {
			return under
		}
		return tb.Ite(tb.Eq(a.idx, row.args[1]), row.args[2], under)
	case "select":
		if row.args[1] == r2 {
			return e.elemReadThrough(row.args[0], a, depth+1)
		}
	}
	return tb.Select(row, a.idx)
}

func (e *Enc) elemReadBase(h *Term, a *Addr) *Term {
	tb := e.tb
	plain := tb.Select(tb.Select(h, a.ref), a.idx)
	if a.off == nil || a.rel == nil {
		return plain
	}
	if _, isLit := a.off.intLit(); isLit {
		return plain
	}
	// only if nothing was resolved syntactically: plain == select(select(base, ref), idx)
	if plain.op != "select" || plain.args[0].op != "select" || plain.args[0].args[1] != a.ref || plain.args[1] != a.idx {
		return plain
	}
	base := plain.args[0].args[0]
	_, rowSort := arrayElemSort(base.sort)
	_, es := arrayElemSort(rowSort)
	name := "elem_" + sanitize(es)
	t := tb.Func(name, []string{base.sort, "Int", "Int", "Int"}, es, base, a.ref, a.off, a.rel)
	if !tb.declSet[name+".axiom"] {
		tb.declSet[name+".axiom"] = true
		H, r, o, i := tb.BoundVar("eh", base.sort), tb.BoundVar("er", "Int"), tb.BoundVar("eo", "Int"), tb.BoundVar("ei", "Int")
		tb.axioms = append(tb.axioms, tb.Forall([]*Term{H, r, o, i},
			tb.Eq(tb.Func(name, []string{base.sort, "Int", "Int", "Int"}, es, H, r, o, i), tb.Select(tb.Select(H, r), tb.Add(o, i)))))
	}
	return t
}

// countingPhi recognises i := c; ...; i += k (k > 0 literal) resp. i -= k at a loop head.
func countingPhi(head *ssa.BasicBlock, phi *ssa.Phi) (start int64, up bool, ok bool) {
	if b, isBasic := phi.Type().Underlying().(*types.Basic); !isBasic || b.Info()&types.IsInteger == 0 {
		return 0, false, false
	}
	haveStart, haveStep := false, false
	for i, p := range head.Preds {
		e := phi.Edges[i]
		if isBackEdge(p, head) {
			bo, isBin := e.(*ssa.BinOp)
			if !isBin || bo.X != phi {
				return 0, false, false
			}
			k, isConst := constInt(bo.Y)
			if !isConst || k <= 0 {
				return 0, false, false
			}
			dirUp := bo.Op == token.ADD
			if bo.Op != token.ADD && bo.Op != token.SUB {
				return 0, false, false
			}
			if haveStep && dirUp != up {
				return 0, false, false
			}
			up, haveStep = dirUp, true
		} else {
			c, isConst := constInt(e)
			if !isConst || (haveStart && int64(c) != start) {
				return 0, false, false
			}
			start, haveStart = int64(c), true
		}
	}
	return start, up, haveStart && haveStep
}

// assignRegsIn resolves a register-level assigns location of a type / interface contract.
func (e *Enc) assignRegsIn(pkg string, ftype types.Type, cl clause, ws *writeSet) bool {
	env := &evalEnv{e: e, vars: map[string]SV{}, bound: map[string]SV{}, pkg: e.L.typesPkg(pkg), typeVars: typeVarsOf(ftype)}
	r, err := e.anyReg(env, cl.text)
	if err != nil {
		return false
	}
	ws.regs[r.name] = true
	return true
}

// ghostReg is the heap register behind a `ghost var`.
func (e *Enc) ghostReg(name, idxSort, valSort string, t types.Type) *regInfo {
	n := "G:" + name
	if r, ok := e.regs[n]; ok {
		return r
	}
	r := &regInfo{name: n, sort: arraySort(idxSort, valSort), typ: t}
	e.regs[n] = r
	return r
}

// ghostAssign executes `g(x) = E` in state st.
func (e *Enc) ghostAssign(fr *Frame, st *State, env *evalEnv, gs ghostStmt) {
	tv, err := env.evalAny(gs.target)
	if err != nil || tv.greg == nil {
		e.contractError(fr, "ghost-set", fmt.Errorf("`%s`: the target must be a ghost variable: %v", gs.text, err))
		return
	}
	vv, err := env.evalAny(gs.value)
	if err != nil {
		e.contractError(fr, "ghost-set", err)
		return
	}
	if vv.untyped && vv.t.sort != tv.t.sort {
		vv = env.convertUntyped(vv, tv.typ)
	}
	e.setReg(st, tv.greg, e.tb.Store(e.reg(st, tv.greg), tv.gidx, vv.t))
}

// immutableReg: the register is declared `immutable T.f` in a contract file.
func (e *Enc) immutableReg(name string) bool {
	if e.immRegs == nil || (e.immTop == nil && e.top != nil) {
		e.immTop = e.top
		e.immRegs = map[string]bool{}
		for _, d := range e.L.contracts.immutable {
			env := &evalEnv{e: e, vars: map[string]SV{}, bound: map[string]SV{}, pkg: e.L.typesPkg(d.pkg)}
			if e.top != nil {
				if ta := e.top.TypeArgs(); len(ta) == 1 {
					env.typeVars = map[string]types.Type{"V": ta[0]}
				}
			}
			if r, err := e.anyReg(env, d.text); err == nil {
				e.immRegs[r.name] = true
			}
		}
	}
	return e.immRegs[name]
}

// rootAlloc: the allocation an address expression is rooted in (through field and index steps), or nil.
func rootAlloc(a ssa.Value) *ssa.Alloc {
	for i := 0; i < 8; i++ {
		switch x := a.(type) {
		case *ssa.Alloc:
			return x
		case *ssa.FieldAddr:
			a = x.X
		case *ssa.IndexAddr:
			a = x.X
		default:
			return nil
		}
	}
	return nil
}

// addProps: an obligation generated from a clause that names its own property ids counts for them in addition to the
// properties of its block.
func (e *Enc) addProps(q *Query, con *FuncContract, extra []string) {
	if len(extra) == 0 || q == nil {
		return
	}
	if e.qProps == nil {
		e.qProps = map[string][]string{}
	}
	ps := append([]string{}, e.qProps[q.Name]...)
	if con != nil {
		for _, p := range con.props {
			if !hasProp(ps, p) {
				ps = append(ps, p)
			}
		}
	}
	for _, p := range extra {
		if !hasProp(ps, p) {
			ps = append(ps, p)
		}
	}
	e.qProps[q.Name] = ps
}

// completeMapRange: a range over a Go map in a unit that opted into the complete-iteration model.
func (e *Enc) completeMapRange(nx *ssa.Next) bool {
	if nx.IsString {
		return false
	}
	con := e.topCon()
	if con == nil || con.opts["map-ranges-complete"] != "true" {
		return false
	}
	rng, ok := nx.Iter.(*ssa.Range)
	if !ok {
		return false
	}
	_, isMap := rng.X.Type().Underlying().(*types.Map)
	return isMap
}
