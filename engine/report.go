package main

import (
	"encoding/json"
	"fmt"
	"os"
	"path/filepath"
	"sort"
	"strings"
)

var k2Kinds = map[string]bool{"index": true, "slice": true, "div0": true, "shift": true, "typeassert": true, "makeslice": true, "nilmap": true,
	"panic": true, "libpre": true, "stackneed": true, "nilfunc": true, "nilinvoke": true, "nilderef": true}

// obligations tied to a piece of code structure (a loop, a call site) rather than to the function's interface
var structuralKinds = map[string]bool{"loop-entry": true, "loop-preserved": true, "callback-entry": true, "callback-preserved": true, "callpre": true, "closure": true, "typeinv": true}

func kindOfName(name string) string {
	i := strings.Index(name, "#")
	if i < 0 {
		return ""
	}
	k := name[i+1:]
	if j := strings.IndexAny(k, ":~"); j >= 0 {
		k = k[:j]
	}
	return k
}

type replayFile struct {
	Property   string            `json:"property"`
	Obligation string            `json:"obligation"`
	Kind       string            `json:"kind"`
	Status     string            `json:"status"`
	Solver     string            `json:"solver,omitempty"`
	Clause     string            `json:"clause,omitempty"`
	Position   string            `json:"position,omitempty"`
	Model      map[string]string `json:"model,omitempty"`
	SolverOut  string            `json:"solver_output,omitempty"`
	Answers    map[string]string `json:"answers,omitempty"`
	Replay     *replayOutcome    `json:"replay,omitempty"`
	Note       string            `json:"note,omitempty"`
}

type replayOutcome struct {
	Attempted bool   `json:"attempted"`
	Confirmed bool   `json:"confirmed"`
	Test      string `json:"test_source,omitempty"`
	Pkg       string `json:"pkg,omitempty"`
	Output    string `json:"output,omitempty"`
	Why       string `json:"why,omitempty"`
}

func matchKnown(k *KnownFindings, id, obl string) *KnownFinding {
	for i := range k.Findings {
		f := &k.Findings[i]
		if f.Fixed != "" || f.Property != id {
			continue
		}
		if f.Obligation == obl {
			return f
		}
		if strings.HasSuffix(f.Obligation, "*") && strings.HasPrefix(obl, strings.TrimSuffix(f.Obligation, "*")) {
			return f
		}
		if strings.HasPrefix(f.Obligation, "*") && strings.Contains(obl, strings.Trim(f.Obligation, "*")) {
			return f
		}
	}
	return nil
}

func report(id string, opt runOpts, L *Loaded, results []*UnitResult, outcomes map[string]*oblOutcome, order []string, wall float64) int {
	ledger := loadLedger(opt, id)
	if ledger == nil {
		fmt.Fprintf(os.Stderr, "govc: no ledger for %s (run `govc ledger %s`)\n", id, id)
		return 2
	}
	known := loadKnown(opt)
	claimed := map[string]bool{}
	for _, n := range ledger.Claimed {
		claimed[n] = true
	}
	unitErr := map[string]string{}
	for _, ur := range results {
		if ur.Err != "" {
			unitErr[ur.Func] = ur.Err
		}
	}
	type viol struct {
		name   string
		out    *oblOutcome
		reason string
	}
	var viols []viol
	var knownLines []string
	discharged := 0
	nClaimedChecked := 0
	byBackend := map[string]int{}
	solverTime := 0.0
	var unclaimed []map[string]string
	for _, n := range ledger.Claimed {
		o, ok := outcomes[n]
		if !ok {
			kind := kindOfName(n)
			if errMsg, bad := unitErr[funcOfObl(n)]; bad {
				viols = append(viols, viol{n, nil, "engine could not process the function: " + errMsg})
				nClaimedChecked++
				continue
			}
			if k2Kinds[kind] || structuralKinds[kind] {
				// the operation / loop / call site no longer exists in the code: nothing to prove about it; what the
				// function must still guarantee is carried by its postconditions, which stay claimed
				continue
			}
			viols = append(viols, viol{n, nil, "claimed obligation is no longer generated (function, clause or loop removed or renamed)"})
			nClaimedChecked++
			continue
		}
		nClaimedChecked++
		if o.ok {
			discharged++
			byBackend[o.r.Solver]++
			solverTime += o.r.TimeS
		} else {
			if kf := matchKnown(known, id, n); kf != nil {
				knownLines = append(knownLines, fmt.Sprintf("KNOWN-FINDING: property=%s %s %s", id, n, kf.What))
				continue
			}
			viols = append(viols, viol{n, o, "claimed obligation not discharged: " + o.status})
		}
	}
	// claimed obligations that were not generated under their name, by stem (the name without the call text and
	// the ~k counter): an edited call site renames its call-precondition obligations, it must not unclaim them
	missingStem := map[string]string{}
	claimedUnit := map[string]bool{} // units with at least one claimed law obligation
	statelessUnit := map[string]bool{}
	for _, n := range ledger.Claimed {
		if kindOfName(n) == "law" {
			claimedUnit[funcOfObl(n)] = true
		}
		if strings.HasSuffix(n, ".captures-read-only") {
			statelessUnit[funcOfObl(n)] = true
		}
	}
	for _, n := range ledger.Claimed {
		if _, ok := outcomes[n]; !ok {
			missingStem[stemOfObl(n)] = n
		}
	}
	// obligations generated now but not claimed
	for _, n := range order {
		if claimed[n] {
			continue
		}
		o := outcomes[n]
		if o.ok {
			unclaimed = append(unclaimed, map[string]string{"obligation": n, "status": "discharged (not in ledger)"})
			continue
		}
		if kf := matchKnown(known, id, n); kf != nil {
			knownLines = append(knownLines, fmt.Sprintf("KNOWN-FINDING: property=%s %s %s", id, n, kf.What))
			continue
		}
		if strings.HasSuffix(n, ".captures-read-only") && statelessUnit[funcOfObl(n)] {
			// statelessness is claimed for every function literal of the unit, also for one that is new
			viols = append(viols, viol{n, o, "a function literal of a unit whose literals are claimed stateless assigns a captured variable: " + o.status})
			continue
		}
		if kindOfName(n) == "law" && claimedUnit[funcOfObl(n)] {
			// a law is claimed for the table, i.e. for every entry and every operator registered now or later
			viols = append(viols, viol{n, o, "law obligation of a claimed table not discharged: " + o.status + " (new entry, pair of entries or flagged operator)"})
			continue
		}
		if was, renamed := missingStem[stemOfObl(n)]; renamed {
			viols = append(viols, viol{n, o, "obligation not discharged: " + o.status + " (claimed as " + was + " before the call site was edited)"})
			continue
		}
		entry := map[string]string{"obligation": n, "status": o.status}
		// an undischarged unclaimed obligation is "undecided" unless its counterexample replays on the real code
		if o.status == "sat" && len(o.r.Model) > 0 {
			if ro := tryReplay(L, opt, id, o); ro != nil {
				if ro.Confirmed {
					viols = append(viols, viol{n, o, "counterexample of an unclaimed obligation confirmed on the real code"})
					entry["status"] = "sat, replay confirmed"
				} else {
					entry["replay"] = "not confirmed: " + ro.Why
					if opt.verbose {
						fmt.Println(ro.Test)
						fmt.Println(ro.Output)
					}
				}
			}
		}
		unclaimed = append(unclaimed, entry)
	}
	sort.Strings(knownLines)
	for _, l := range knownLines {
		fmt.Println(l)
	}
	// replay files and VIOLATION lines
	exit := 0
	rdir := filepath.Join(opt.outDir, "replays", id)
	for _, v := range viols {
		_ = os.MkdirAll(rdir, 0o755)
		rf := replayFile{Property: id, Obligation: v.name, Kind: kindOfName(v.name), Note: v.reason}
		suffix := " no-failing-input-found"
		if v.out != nil {
			rf.Status, rf.Solver, rf.Clause, rf.Position, rf.Model, rf.SolverOut, rf.Answers = v.out.status, v.out.r.Solver, v.out.q.Text, v.out.q.Pos, v.out.r.Model, v.out.r.Detail, v.out.r.Answers
			if v.out.status == "sat" && len(v.out.r.Model) > 0 {
				if ro := tryReplay(L, opt, id, v.out); ro != nil {
					rf.Replay = ro
					if ro.Confirmed {
						suffix = ""
					}
				}
			}
		} else {
			rf.Status = "missing"
		}
		path := filepath.Join(rdir, sanitizeFile(v.name)+".json")
		b, _ := json.MarshalIndent(rf, "", " ")
		_ = os.WriteFile(path, append(b, '\n'), 0o644)
		fmt.Printf("VIOLATION property=%s replay=%s%s\n", id, path, suffix)
		fmt.Printf("  obligation %s: %s\n", v.name, v.reason)
		exit = 1
	}
	writeEvidence(id, opt, L, results, ledger, nClaimedChecked, discharged, byBackend, solverTime, unclaimed, knownLines, len(viols), wall)
	if exit == 0 {
		fmt.Printf("OK property=%s obligations=%d discharged=%d known_findings=%d unclaimed=%d wall=%.1fs\n", id, nClaimedChecked, discharged, len(knownLines), len(unclaimed), wall)
	}
	return exit
}

func sanitizeFile(s string) string {
	s = sanitize(s)
	if len(s) > 150 {
		s = s[:150]
	}
	return s
}

func writeEvidence(id string, opt runOpts, L *Loaded, results []*UnitResult, ledger *Ledger, nobl, ndis int, byBackend map[string]int, solverTime float64,
	unclaimed []map[string]string, knownLines []string, nviol int, wall float64) {
	assume := map[string]bool{}
	var funcs []string
	notes := map[string]int{}
	type slowObl struct {
		name   string
		t      float64
		solver string
	}
	var slow []slowObl
	var samples []map[string]any
	for _, ur := range results {
		uses := false
		for _, q := range ur.Queries {
			if hasProp(ur.Props[q.Name], id) {
				uses = true
			}
		}
		if !uses {
			continue
		}
		funcs = append(funcs, ur.Func)
		for _, a := range ur.Assumptions {
			assume[a] = true
		}
		for k, v := range ur.Notes {
			notes[k] += v
		}
		for i, q := range ur.Queries {
			if i < len(ur.Results) && hasProp(ur.Props[q.Name], id) && !q.Cover {
				slow = append(slow, slowObl{q.Name, ur.Results[i].TimeS, ur.Results[i].Solver})
			}
			if len(samples) < 6 && hasProp(ur.Props[q.Name], id) && !q.Cover && i < len(ur.Results) && q.Goal != nil && q.Goal.size > 5 {
				samples = append(samples, map[string]any{"obligation": q.Name, "clause": q.Text, "status": ur.Results[i].Status, "solver": ur.Results[i].Solver,
					"term_size": q.Goal.size, "assumptions": q.NAssume, "time_s": round3(ur.Results[i].TimeS)})
			}
		}
	}
	sort.Strings(funcs)
	funcs = uniq(funcs)
	sort.Slice(slow, func(i, j int) bool { return slow[i].t > slow[j].t })
	var slowest []map[string]any
	for i, so := range slow {
		if i >= 8 {
			break
		}
		slowest = append(slowest, map[string]any{"obligation": so.name, "time_s": round3(so.t), "solver": so.solver})
	}
	var as []string
	for a := range assume {
		as = append(as, a)
	}
	for k := range notes {
		if strings.HasPrefix(k, "havoc of the whole heap") || strings.HasPrefix(k, "call without contract") || strings.HasPrefix(k, "dynamic call without") || strings.HasPrefix(k, "invoke without") {
			as = append(as, "abstraction: "+k)
		}
	}
	as = append(as, trustedBase...)
	sort.Strings(as)
	if len(samples) == 0 {
		samples = append(samples, map[string]any{"note": "no non-trivial obligation in this run"})
	}
	ev := map[string]any{
		"property_id": id,
		"tier":        opt.tier,
		"seed":        opt.seed,
		"level":       "proof",
		"wall_s":      round3(wall),
		"violations":  nviol,
		"assumptions": as,
		"coverage": map[string]any{
			"obligations":              nobl,
			"discharged":               ndis,
			"checker_cmd":              fmt.Sprintf("bin/govc check %s --tier %s   (solvers raced: %s; per-query timeout %d ms)", id, opt.tier, strings.Join(opt.solvers, ", "), opt.timeoutMs),
			"trusted_base":             trustedBase,
			"functions_under_contract": funcs,
			"by_backend":               byBackend,
			"solver_time_s":            round3(solverTime),
			"unclaimed":                unclaimed,
			"known_findings":           knownLines,
			"samples":                  samples,
			"slowest_obligations":      slowest,
			"ledger_size":              len(ledger.Claimed),
			"explanation":              "obligations = ledger obligations re-generated from the current source and attempted in this run; discharged = those proved unsat(negation) by an SMT solver; unclaimed obligations are attempted but only reported",
		},
	}
	b, _ := json.MarshalIndent(ev, "", " ")
	_ = os.MkdirAll(filepath.Join(opt.outDir, "evidence"), 0o755)
	_ = os.WriteFile(filepath.Join(opt.outDir, "evidence", id+".json"), append(b, '\n'), 0o644)
}

var trustedBase = []string{
	"go/ssa lowering of the source (golang.org/x/tools v0.29.0) and the Go compiler/runtime",
	"the VC generator govc itself (guarded by the must-fail selftest corpus and cover queries, not proved)",
	"SMT solvers z3 4.8.12, z3 5.1.0, cvc5 1.0.3",
}

func round3(f float64) float64 { return float64(int(f*1000+0.5)) / 1000 }

func uniq(xs []string) []string {
	var out []string
	for i, x := range xs {
		if i == 0 || x != xs[i-1] {
			out = append(out, x)
		}
	}
	return out
}

func extraJobs(L *Loaded, id string, opt runOpts) []unitJob { return extraJobsImpl(L, id, opt) }

// a cover query guards against vacuity: it fails only if the solver proves the path unreachable
func coverOK(status string) bool {
	return status == "sat" || status == "unknown" || status == "timeout"
}

// stemOfObl: the obligation name without the source text of the call site and without the ~k occurrence counter.
// unit#callpre:callee.clause:<call text>~2  ->  unit#callpre:callee.clause
func stemOfObl(n string) string {
	i := strings.Index(n, "#")
	if i < 0 {
		return n
	}
	unit, rest := n[:i], n[i+1:]
	if j := strings.LastIndex(rest, "~"); j >= 0 {
		digits := rest[j+1:]
		allDigits := digits != ""
		for _, c := range digits {
			if c < '0' || c > '9' {
				allDigits = false
			}
		}
		if allDigits {
			rest = rest[:j]
		}
	}
	if strings.HasPrefix(rest, "callpre:") {
		parts := strings.SplitN(rest, ":", 3) // callpre, callee.clause, call text
		if len(parts) == 3 {
			rest = parts[0] + ":" + parts[1]
		}
	}
	return unit + "#" + rest
}
