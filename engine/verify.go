package main

import (
	"fmt"
	"go/ast"
	"go/token"
	"go/types"
	"os"
	"sort"
	"strings"
	"time"

	"golang.org/x/tools/go/ssa"
)

// UnitResult is the outcome of verifying one function (one SMT unit).
type UnitResult struct {
	Name        string
	Func        string
	Queries     []*Query
	Results     []QResult
	Notes       map[string]int
	Assumptions []string
	EncodeS     float64
	SolveS      float64
	Props       map[string][]string // query name -> property ids
	Err         string
	fn          *ssa.Function
	con         *FuncContract
	entry       *tableEntry
	ctorKeys    map[string]string // Iface constructor name (box_k) -> Go type string
}

// setupParams creates the symbolic inputs of a function under verification.
func (e *Enc) setupParams(fn *ssa.Function) []Val {
	tb := e.tb
	var args []Val
	for i, p := range fn.Params {
		t := tb.Const("p_"+p.Name(), e.sortOf(p.Type()))
		e.assumeWF(tb.True(), p.Type(), t)
		args = append(args, Val{T: []*Term{t}})
		if _, ok := p.Type().Underlying().(*types.Pointer); ok {
			if i == 0 && fn.Signature.Recv() != nil {
				e.assume(tb.True(), tb.Gt(t, tb.Int(0))) // receivers are non-nil, allocated objects
			} else {
				e.assume(tb.True(), tb.Ge(t, tb.Int(0)))
			}
		}
		if _, ok := p.Type().Underlying().(*types.Slice); ok {
			e.assume(tb.True(), tb.Ge(tb.SRef(t), tb.Int(0)))
		}
		e.addInputs(p.Name(), p.Type(), t, 0)
	}
	return args
}

// addInputs registers model-relevant terms for a parameter (scalars, struct fields, pointee fields, slice header).
func (e *Enc) addInputs(name string, t types.Type, term *Term, depth int) {
	if depth > 2 || len(e.inputs) > 60 {
		return
	}
	tb := e.tb
	switch u := t.Underlying().(type) {
	case *types.Basic:
		e.inputs = append(e.inputs, NamedTerm{name, term})
	case *types.Slice:
		e.inputs = append(e.inputs, NamedTerm{"len(" + name + ")", tb.SLen(term)}, NamedTerm{"cap(" + name + ")", tb.SCap(term)})
	case *types.Struct:
		s := e.structSortOf(t, u)
		for i := 0; i < u.NumFields(); i++ {
			e.addInputs(name+"."+u.Field(i).Name(), u.Field(i).Type(), tb.Field(s, i, term), depth+1)
		}
	case *types.Pointer:
		if su, ok := u.Elem().Underlying().(*types.Struct); ok {
			s := e.structSortOf(u.Elem(), su)
			for i := 0; i < su.NumFields(); i++ {
				r := e.fieldReg(s, su, i)
				e.addInputs(name+"."+su.Field(i).Name(), su.Field(i).Type(), tb.Select(e.regInit(nil, r), term), depth+1)
			}
		}
	case *types.Interface:
		e.inputs = append(e.inputs, NamedTerm{name, term})
	}
}

func (e *Enc) entryEnv(fn *ssa.Function, args []Val, st *State) *evalEnv {
	return e.envForCall(fn, args, nil, st, st)
}

// VerifyFunc generates and discharges the obligations of one function against its contract.
func VerifyFunc(L *Loaded, fn *ssa.Function, con *FuncContract, opt runOpts) (res *UnitResult) {
	t0 := time.Now()
	e := NewEnc(L)
	e.top = fn
	e.ctx = shortFuncName(fn)
	ur := &UnitResult{Name: e.ctx, Func: e.ctx, Props: map[string][]string{}, fn: fn, con: con}
	res = ur
	defer func() {
		if r := recover(); r != nil {
			ur.Err = fmt.Sprint(r)
			if opt.debug {
				panic(r)
			}
		}
	}()
	e.safety = con == nil || len(con.safetyProps) > 0 || opt.sweep
	if con != nil {
		e.topConPkg = con.pkg
	}
	if con != nil && con.implOf != nil {
		// implementation of an interface method verified against the interface contract: self = the boxed receiver,
		// parameters are addressed by the names used in the interface declaration
		e.ctx = shortFuncName(fn) + "$impl"
		ur.Name, ur.Func = e.ctx, e.ctx
		sig := con.implOf
		e.envAlias = func(env *evalEnv, args []Val) {
			rt := fn.Params[0].Type()
			env.vars["self"] = SV{t: e.tb.Box(e.typeKey(rt), e.sortOf(rt), args[0].t()), typ: con.implIface}
			var names []string
			if p, ok := con.opts["params"]; ok {
				names = strings.Split(p, ",")
			}
			for i := 0; i < sig.Params().Len() && i+1 < len(args); i++ {
				n := sig.Params().At(i).Name()
				if i < len(names) {
					n = strings.TrimSpace(names[i])
				}
				if n != "" && n != "_" {
					env.vars[n] = SV{t: args[i+1].t(), typ: fn.Params[i+1].Type(), addr: args[i+1].Addr, pointee: args[i+1].Addr != nil}
				}
			}
		}
	}
	if con != nil {
		for _, cls := range [][]clause{con.requires, con.ensures} {
			for _, cl := range cls {
				if strings.Contains(cl.text, "log") {
					e.useWriterLog = true
				}
			}
		}
		for _, a := range con.asserts {
			if strings.Contains(a.cl.text, "log") {
				e.useWriterLog = true
			}
		}
	}
	e.runBody(fn, con, ur)
	ur.EncodeS = time.Since(t0).Seconds()
	e.finish(ur, opt)
	return ur
}

func (e *Enc) runBody(fn *ssa.Function, con *FuncContract, ur *UnitResult) {
	tb := e.tb
	e.curCon = con
	st := State{reach: tb.True(), heap: map[string]*Term{}}
	args := e.setupParams(fn)
	entry := st.clone()
	e.bindFreeVars(fn)
	e.entryPreconditions(fn, args, &entry)
	for i, p := range fn.Params {
		if i < len(args) {
			e.applyTypeInvs(nil, &entry, p.Type(), args[i].t(), "assume", tb.True(), token.NoPos)
		}
	}
	if con != nil {
		env := e.entryEnv(fn, args, &entry)
		for _, cl := range con.requires {
			t, err := env.evalBool(cl.expr)
			if err != nil {
				e.contractError(nil, "requires", err)
				continue
			}
			e.assume(tb.True(), t)
		}
		if extra := os.Getenv("GOVC_ASSUME"); extra != "" { // debugging aid: narrow the inputs
			if ex, err := parseSpecExpr(extra); err == nil {
				if t, err := env.evalBool(ex); err == nil {
					e.assume(tb.True(), t)
				} else {
					fmt.Fprintln(os.Stderr, "GOVC_ASSUME:", err)
				}
			}
		}
		// vacuity guard: the precondition must be satisfiable
		q := &Query{Name: e.ctx + "#cover:requires", Kind: "cover", NAssume: len(e.assumes), Goal: tb.True(), Cover: true}
		e.queries = append(e.queries, q)
	}
	if con != nil && con.yields != "" {
		for i, p := range fn.Params {
			if p.Name() == con.yields && i < len(args) {
				e.yieldParam, e.yieldName, e.yieldType = args[i].t(), p.Name(), p.Type()
			}
		}
		if e.yieldParam == nil {
			e.contractError(nil, "yields", fmt.Errorf("no parameter %q", con.yields))
		} else {
			e.setYield(&st, tb.False(), tb.False())
			e.setYieldCount(&st, tb.Int(0))
			entry0 := entry.clone()
			e.yieldEnv = func(s *State) *evalEnv { return e.envForCall(fn, args, nil, s, &entry0) }
		}
	}
	res, out, fr := e.encodeFunc(fn, args, e.freeVarVals, st, nil, con, nil)
	e.topFr = fr
	if con == nil {
		return
	}
	if con.iter != nil && (e.yieldParam == nil || con.iter.param != e.yieldName || con.opts["iterates-checked"] != "true") {
		e.modelled("ASSUMED iteration summary (`iterates`: number, order and arguments of the callback calls) of " + shortFuncName(fn) + "; only its stop protocol (`yields`) is verified against the body")
	}
	if con.iter != nil && e.yieldParam != nil && con.iter.param == e.yieldName && con.opts["iterates-checked"] == "true" {
		// the unit's own summary: every call was checked where it happens (protocol:…-called-as-summarised); at a return
		// without a stop all `count` calls have been made
		env := e.yieldEnv(&out)
		if cnt, err := env.evalAny(con.iter.count); err == nil && cnt.t != nil && cnt.t.sort == "Int" {
			q := e.oblige("protocol", e.yieldName+"-called-count-times", &out, tb.Or(e.yieldStopped(&out), tb.Eq(e.yieldCount(&out), cnt.t)), token.NoPos, e.inputVals()...)
			q.Text = "unless the callback said stop, it has been called exactly `count` times when the function returns (summary `iterates " + con.iter.text + "`)"
		} else {
			e.contractError(fr, "iterates", fmt.Errorf("count: %v", err))
		}
	}
	if e.yieldParam != nil {
		// one obligation that is always generated: on no path was the callback called, or handed to a callee, after it
		// had returned false
		goal := tb.Not(e.yieldBad(&out))
		text := "the callback " + e.yieldName + " is never called again, nor handed to another iterator, once it has returned false"
		for mc, done := range e.yieldLits {
			if !done {
				// a literal that captures the callback and is not verified as the body of an iteration: whoever gets it
				// may call the callback at any time
				goal = tb.False()
				text += "; the literal " + mc.Fn.Name() + " captures it and is not verified as an iteration body (no callback clauses)"
			}
		}
		q := e.oblige("protocol", e.yieldName+"-not-called-after-stop", &out, goal, token.NoPos, e.inputVals()...)
		q.Text = text
	}
	if len(fr.rets) > 0 {
		q := &Query{Name: e.ctx + "#cover:return", Kind: "cover", NAssume: len(e.assumes), Goal: out.reach, Cover: true}
		e.queries = append(e.queries, q)
	}
	if con.opts["constructs-lazily"] == "true" {
		// one obligation that is always generated: no reachable call in the constructor's own body evaluates anything
		bad := tb.False()
		for _, r := range e.lazyReach {
			bad = tb.Or(bad, r)
		}
		top := State{reach: tb.True(), heap: map[string]*Term{}}
		q := e.oblige("assert", "constructs-lazily", &top, tb.Not(bad), token.NoPos, e.inputVals()...)
		q.Text = "building the pipeline evaluates nothing: no call of a function value, of an evaluating function or of unknown effect outside the function literals"
		if len(e.lazyWhat) > 0 {
			q.Text += "; offending calls: " + strings.Join(e.lazyWhat, " | ")
		}
	}
	env := e.envForCall(fn, args, res, &out, &fr.entry)
	for k, cl := range con.ensures {
		t, err := env.evalBool(cl.expr)
		if err != nil {
			e.contractError(fr, clauseLabel("ensures", k, cl), err)
			continue
		}
		pos := token.NoPos
		q := e.oblige("ensures", clauseLabel("ensures", k, cl), &out, t, pos, e.inputVals()...)
		q.Text = cl.text
		for i, r := range res {
			q.Vals = append(q.Vals, NamedTerm{fmt.Sprintf("result%d", i), r})
		}
		e.clauseProps(ur, q, con, cl)
	}
	if con.panicsNever {
		for i, p := range fr.panics {
			s := State{reach: p, heap: map[string]*Term{}}
			e.oblige("panics-never", fmt.Sprint(i+1), &s, tb.False(), token.NoPos, e.inputVals()...)
		}
	}
	if con.assigns != nil {
		if con.opts["frame-trusted"] == "true" {
			e.modelled("TRUSTED frame (assigns clause assumed by callers, not checked against the body): " + shortFuncName(fn))
		} else {
			e.frameObligations(fr, con, args, &out, ur)
		}
	}
}

func (e *Enc) clauseProps(ur *UnitResult, q *Query, con *FuncContract, cl clause) {
	ps := cl.props
	if len(ps) == 0 {
		ps = con.props
	}
	ur.Props[q.Name] = ps
}

// finish assigns properties to the remaining queries and runs the solvers.
func (e *Enc) finish(ur *UnitResult, opt runOpts) {
	con := e.topCon()
	for _, q := range e.queries {
		if _, ok := ur.Props[q.Name]; ok {
			continue
		}
		if ps, ok := e.qProps[q.Name]; ok {
			ur.Props[q.Name] = ps
			continue
		}
		if con == nil {
			continue
		}
		switch q.Kind {
		case "ensures", "loop-entry", "loop-preserved", "callback-entry", "callback-preserved", "callpre", "cover", "contract-target", "frame", "closure", "lemma", "assert", "typeinv", "law", "protocol":
			ur.Props[q.Name] = con.props
		default:
			ur.Props[q.Name] = con.safetyProps
		}
	}
	if only := os.Getenv("GOVC_ONLY"); only != "" { // debugging aid: solve a subset of the obligations
		var keep []*Query
		for _, q := range e.queries {
			for _, pat := range strings.Split(only, "|") {
				if strings.Contains(q.Name+" "+q.Pos, pat) {
					keep = append(keep, q)
					break
				}
			}
		}
		e.queries = keep
	}
	for _, q := range e.queries {
		for suffix, ps := range e.L.contracts.suffixProps {
			if strings.HasSuffix(q.Name, suffix) {
				have := append([]string{}, ur.Props[q.Name]...)
				for _, p := range ps {
					if !hasProp(have, p) {
						have = append(have, p)
					}
				}
				ur.Props[q.Name] = have
			}
		}
	}
	e.addAxioms()
	ur.ctorKeys = map[string]string{}
	for _, c := range e.tb.ifaceCtors {
		ur.ctorKeys[fmt.Sprintf("box_%d", c.id)] = c.key
	}
	ur.Queries = e.queries
	ur.Notes = e.notes
	for a := range e.assumptionLog {
		ur.Assumptions = append(ur.Assumptions, a)
	}
	sort.Strings(ur.Assumptions)
	if opt.claimed != nil {
		for _, q := range e.queries {
			if !opt.claimed[q.Name] && !q.Cover {
				q.Short = true
			}
		}
	}
	u := &Unit{Name: ur.Name, tb: e.tb, assumes: e.assumes, scopes: e.assumeScope, queries: e.queries, hints: e.hints}
	t1 := time.Now()
	ur.Results = u.Solve(opt.solvers, opt.timeoutMs, opt.seed, opt.agree, opt.dumpDir)
	ur.SolveS = time.Since(t1).Seconds()
}

func (e *Enc) topCon() *FuncContract {
	if e.topFr != nil {
		return e.topFr.con
	}
	return e.curCon
}

// frameAllow evaluates the `assigns` clause of a contract into allowed locations per register.
type allowedLoc struct {
	ref    *Term
	all    bool  // whole row (elem registers)
	idx    *Term // single element
	anyRef bool  // every object (register-level assigns)
}

func (e *Enc) frameAllow(fr *Frame, con *FuncContract) (map[string][]allowedLoc, error) {
	entry := &fr.entry
	env := e.envForCall(fr.fn, fr.args, nil, entry, entry)
	allow := map[string][]allowedLoc{}
	for _, cl := range con.assigns {
		if cl.kind == "assigns-any" {
			r, err := e.anyReg(env, cl.text)
			if err != nil {
				return nil, err
			}
			allow[r.name] = append(allow[r.name], allowedLoc{anyRef: true})
			continue
		}
		sv, err := env.evalAny(cl.expr)
		if err == nil && sv.wlog {
			for _, n := range []string{"W:len", "W:kind", "W:int", "W:str"} {
				e.wReg(n)
				allow[n] = append(allow[n], allowedLoc{ref: sv.t, all: true})
			}
			continue
		}
		if err == nil && sv.greg != nil {
			allow[sv.greg.name] = append(allow[sv.greg.name], allowedLoc{ref: sv.gidx})
			continue
		}
		if err != nil || sv.addr == nil {
			return nil, fmt.Errorf("cannot evaluate `%s`: %v", cl.text, err)
		}
		a := sv.addr
		switch {
		case a.elem:
			allow[e.elemReg(a.root).name] = append(allow[e.elemReg(a.root).name], allowedLoc{ref: a.ref, all: sv.all, idx: a.idx})
		default:
			if u, ok := a.root.Underlying().(*types.Struct); ok {
				s := e.structSortOf(a.root, u)
				if len(a.path) > 0 && a.path[0].kind == stField {
					r := e.fieldReg(s, u, a.path[0].field)
					allow[r.name] = append(allow[r.name], allowedLoc{ref: a.ref})
				} else {
					for i := 0; i < u.NumFields(); i++ {
						r := e.fieldReg(s, u, i)
						allow[r.name] = append(allow[r.name], allowedLoc{ref: a.ref})
					}
				}
			} else {
				r := e.ptrReg(a.root)
				allow[r.name] = append(allow[r.name], allowedLoc{ref: a.ref})
			}
		}
	}
	return allow, nil
}

// frameFormula: every location of register n that was allocated at entry and is not allowed is as at entry.
func (e *Enc) frameFormula(fr *Frame, allow map[string][]allowedLoc, st *State, n string) *Term {
	tb := e.tb
	r := e.regs[n]
	after := e.reg(st, r)
	before := e.reg(&fr.entry, r)
	if after == before {
		return tb.True()
	}
	for _, a := range allow[n] {
		if a.anyRef {
			return tb.True()
		}
	}
	if strings.HasPrefix(n, "G:") {
		is, _ := arrayElemSort(r.sort)
		gi := tb.BoundVar("gi", is)
		var ex []*Term
		for _, a := range allow[n] {
			ex = append(ex, tb.Eq(gi, a.ref))
		}
		return tb.Forall([]*Term{gi}, tb.Imp(tb.Not(tb.Or(ex...)), tb.Eq(tb.Select(after, gi), tb.Select(before, gi))))
	}
	ref := tb.BoundVar("fr", RefSort)
	if r.elem {
		idx := tb.BoundVar("fi", "Int")
		var ex []*Term
		for _, a := range allow[n] {
			if a.all {
				ex = append(ex, tb.Eq(ref, a.ref))
			} else {
				ex = append(ex, tb.And(tb.Eq(ref, a.ref), tb.Eq(idx, a.idx)))
			}
		}
		same := tb.Eq(tb.Select(tb.Select(after, ref), idx), tb.Select(tb.Select(before, ref), idx))
		return tb.Forall([]*Term{ref, idx}, tb.Imp(tb.And(tb.Gt(ref, tb.Int(0)), tb.Not(tb.Or(ex...))), same))
	}
	var ex []*Term
	for _, a := range allow[n] {
		ex = append(ex, tb.Eq(ref, a.ref))
	}
	same := tb.Eq(tb.Select(after, ref), tb.Select(before, ref))
	return tb.Forall([]*Term{ref}, tb.Imp(tb.And(tb.Gt(ref, tb.Int(0)), tb.Not(tb.Or(ex...))), same))
}

// frameObligations (K3): every location not named by `assigns` and allocated at entry is unchanged at return.
func (e *Enc) frameObligations(fr *Frame, con *FuncContract, args []Val, out *State, ur *UnitResult) {
	tb := e.tb
	allow, err := e.frameAllow(fr, con)
	if err != nil {
		e.contractError(fr, "assigns", err)
		return
	}
	if out.ep != fr.entry.ep {
		// the heap was havocked wholesale somewhere: no frame can be proved
		s := State{reach: out.reach, heap: map[string]*Term{}}
		q := e.oblige("frame", "whole-heap-havoc", &s, tb.False(), token.NoPos)
		q.Text = "a call without contract or assigns clause makes the frame unprovable"
		return
	}
	var names []string
	for n := range out.heap {
		names = append(names, n)
	}
	sort.Strings(names)
	for _, n := range names {
		cond := e.frameFormula(fr, allow, out, n)
		if tb.isTrue(cond) {
			continue
		}
		q := e.oblige("frame", regLabel(e, n), out, cond, token.NoPos)
		q.Text = "only locations named by `assigns` (and fresh objects) may change: register " + regLabel(e, n)
	}
}

// regLabel renders a register name with Go field names instead of ordinals.
func regLabel(e *Enc, n string) string {
	parts := strings.Split(n, ":")
	if parts[0] == "H" && len(parts) == 3 {
		if s := e.tb.structByName(parts[1]); s != nil {
			var i int
			fmt.Sscanf(parts[2], "%d", &i)
			nm := parts[1]
			if k := strings.Index(nm, "_"); k >= 0 {
				nm = nm[k+1:]
			}
			return nm + "." + s.fnames[i]
		}
	}
	if parts[0] == "E" {
		s := strings.Join(parts[1:], ":")
		if k := strings.Index(s, "_"); k >= 0 && strings.HasPrefix(s, "S") {
			s = s[k+1:]
		}
		return "[]" + s
	}
	return n
}

// addAxioms evaluates the `axiom` clauses whose ghost functions occur in this unit and asserts them as background.
func (e *Enc) addAxioms() {
	changed := true
	done := map[*Lemma]bool{}
	for changed {
		changed = false
		for _, ax := range e.L.contracts.axioms {
			if done[ax] {
				continue
			}
			uses := false
			for name := range e.L.contracts.ghosts {
				if e.tb.declSet[sanitize("ghost_"+name)] && containsIdent(ax.text, name) {
					uses = true
				}
			}
			if !uses || !e.axiomTypesPresent(ax) {
				continue
			}
			done[ax] = true
			changed = true
			st := State{reach: e.tb.True(), heap: map[string]*Term{}}
			env := &evalEnv{e: e, st: &st, old: &st, vars: map[string]SV{}, bound: map[string]SV{}, pkg: e.L.typesPkg(ax.pkg)}
			t, err := env.evalBool(ax.expr)
			if err != nil {
				e.contractError(nil, "axiom:"+ax.name, err)
				continue
			}
			e.tb.axioms = append(e.tb.axioms, t)
			e.modelled("axiom " + ax.name + ": " + ax.text)
		}
	}
}

func containsIdent(text, name string) bool {
	i := 0
	for {
		j := strings.Index(text[i:], name)
		if j < 0 {
			return false
		}
		j += i
		okL := j == 0 || !isIdentChar(text[j-1])
		okR := j+len(name) >= len(text) || !isIdentChar(text[j+len(name)])
		if okL && okR {
			return true
		}
		i = j + len(name)
	}
}

// axiomTypesPresent: an axiom `forall x T, ... :: ...` about a concrete (non-interface) type T is only relevant to a
// unit in which values of T are boxed into interfaces (its constructor of the Iface datatype exists).
func (e *Enc) axiomTypesPresent(ax *Lemma) bool {
	call, ok := ax.expr.(*ast.CallExpr)
	if !ok {
		return true
	}
	id, ok := call.Fun.(*ast.Ident)
	if !ok || (id.Name != "forallT_" && id.Name != "existsT_") {
		return true
	}
	fl, ok := call.Args[0].(*ast.FuncLit)
	if !ok {
		return true
	}
	st := State{reach: e.tb.True(), heap: map[string]*Term{}}
	env := &evalEnv{e: e, st: &st, old: &st, vars: map[string]SV{}, bound: map[string]SV{}, pkg: e.L.typesPkg(ax.pkg)}
	for _, f := range fl.Type.Params.List {
		t, err := env.tryType(f.Type)
		if err != nil {
			return true
		}
		if _, isIface := t.Underlying().(*types.Interface); isIface {
			continue
		}
		if _, isStruct := t.Underlying().(*types.Struct); !isStruct {
			continue
		}
		if _, ok := e.tb.ifaceByKey[e.typeKey(t)]; !ok {
			return false
		}
	}
	return true
}

// VerifyEntry verifies one registered function literal (operator implementation, static function, method) as a
// unit of its own: free variables are unconstrained, the preconditions are those the dispatch code guarantees
// (dynamic operand types for operator tables, the declared number of stack arguments for functions and methods).
func VerifyEntry(L *Loaded, t *tableEntry, tab *FuncContract, own *FuncContract, opt runOpts) (res *UnitResult) {
	t0 := time.Now()
	e := NewEnc(L)
	fn := t.fn
	e.top = fn
	e.ctx = t.unitName()
	con := &FuncContract{pkg: tab.pkg, key: tab.key, kind: "func", props: tab.props, safetyProps: tab.safetyProps, invs: map[int][]clause{}, opts: map[string]string{}}
	if own == tab {
		con.props, con.safetyProps = nil, nil
	}
	if own != nil {
		con.requires, con.ensures, con.invs, con.assigns, con.assignsNone, con.asserts = own.requires, own.ensures, own.invs, own.assigns, own.assignsNone, own.asserts
		con.assertsAfter, con.yields, con.callbacks = own.assertsAfter, own.yields, own.callbacks
		con.props = append(append([]string{}, con.props...), own.props...)
		con.safetyProps = append(append([]string{}, con.safetyProps...), own.safetyProps...)
		own.used = true
	}
	ur := &UnitResult{Name: e.ctx, Func: e.ctx, Props: map[string][]string{}, fn: fn, con: con}
	res = ur
	defer func() {
		if r := recover(); r != nil {
			ur.Err = fmt.Sprint(r)
			if opt.debug {
				panic(r)
			}
		}
	}()
	e.safety = len(con.safetyProps) > 0 || opt.sweep
	e.topConPkg = con.pkg
	e.entry = t
	ur.entry = t
	e.runBody(fn, con, ur)
	ur.EncodeS = time.Since(t0).Seconds()
	e.finish(ur, opt)
	return ur
}

// entryPreconditions: what the dispatching code establishes before it calls a registered function literal.
func (e *Enc) entryPreconditions(fn *ssa.Function, args []Val, st *State) {
	t := e.entry
	if t == nil {
		return
	}
	tb := e.tb
	typed := func(v Val, ty types.Type) {
		if ty == nil {
			return
		}
		e.assume(tb.True(), tb.IsBox(e.typeKey(ty), e.sortOf(ty), v.t()))
	}
	validStack := func(v Val, ty types.Type) (size *Term) {
		s, u := e.structOf(ty)
		var storage, offs *Term
		for i := 0; i < u.NumFields(); i++ {
			switch u.Field(i).Name() {
			case "storage":
				storage = tb.Field(s, i, v.t())
			case "offs":
				offs = tb.Field(s, i, v.t())
			case "size":
				size = tb.Field(s, i, v.t())
			}
		}
		if storage == nil || offs == nil || size == nil {
			return nil
		}
		// storage != nil, 0 <= offs, 0 <= size, offs+size <= len(storage.data)
		var stType types.Type
		for i := 0; i < u.NumFields(); i++ {
			if u.Field(i).Name() == "storage" {
				stType = u.Field(i).Type().Underlying().(*types.Pointer).Elem()
			}
		}
		ss, su := e.structOf(stType)
		data := tb.Select(e.reg(st, e.fieldReg(ss, su, 0)), storage)
		e.assumeWF(tb.True(), su.Field(0).Type(), data)
		e.assume(tb.True(), tb.And(tb.Gt(storage, tb.Int(0)), tb.Le(tb.Int(0), offs), tb.Le(tb.Int(0), size), tb.Le(tb.Add(offs, size), tb.SLen(data))))
		// the argument slots hold values (never a nil interface)
		if sl, ok := su.Field(0).Type().Underlying().(*types.Slice); ok {
			if _, isIface := sl.Elem().Underlying().(*types.Interface); isIface {
				i := tb.BoundVar("si", "Int")
				ad := &Addr{elem: true, ref: tb.SRef(data), idx: tb.Add(tb.SOff(data), tb.Add(offs, i)), off: tb.SOff(data), rel: tb.Add(offs, i), root: sl.Elem()}
				e.assume(tb.True(), tb.Forall([]*Term{i}, tb.Imp(tb.And(tb.Le(tb.Int(0), i), tb.Lt(i, size)), tb.Not(tb.Eq(e.elemRead(e.reg(st, e.elemReg(sl.Elem())), ad), tb.NilIface())))))
				e.modelled("stack argument slots hold non-nil values")
			}
		}
		return size
	}
	isStack := func(ty types.Type) bool {
		n, ok := ty.(*types.Named)
		return ok && n.Obj().Name() == "Stack" && n.Obj().Pkg() != nil && strings.HasSuffix(n.Obj().Pkg().Path(), "/funcGen")
	}
	// closures get their free variables first in fn.Params? no: FreeVars are separate; Params are the declared ones
	for i, p := range fn.Params {
		if isStack(p.Type()) {
			size := validStack(args[i], p.Type())
			if size == nil {
				continue
			}
			e.stackInputs(args[i], p.Type(), st, size)
			switch t.kind {
			case "static":
				if t.args >= 0 {
					e.assume(tb.True(), tb.Eq(size, tb.Int(int64(t.args))))
				} else if t.argsMax > 0 {
					e.assume(tb.True(), tb.And(tb.Le(tb.Int(int64(t.argsMin)), size), tb.Le(size, tb.Int(int64(t.argsMax)))))
				}
			case "method":
				if t.args >= 0 {
					e.assume(tb.True(), tb.Eq(size, tb.Int(int64(t.args+1))))
				} else if t.argsMax > 0 {
					e.assume(tb.True(), tb.And(tb.Le(tb.Int(int64(t.argsMin)), size), tb.Le(size, tb.Int(int64(t.argsMax)))))
				} else {
					e.assume(tb.True(), tb.Ge(size, tb.Int(1)))
				}
			}
		}
	}
	switch t.kind {
	case "binop":
		// func(st, a, b)
		if len(fn.Params) == 3 {
			typed(args[1], t.t1)
			typed(args[2], t.t2)
		}
	case "unop":
		if len(fn.Params) == 1 {
			typed(args[0], t.t1)
		}
	case "op":
		// derived operator closures: operands are arbitrary non-nil values
		for i, p := range fn.Params {
			if _, ok := p.Type().Underlying().(*types.Interface); ok {
				e.assume(tb.True(), tb.Not(tb.Eq(args[i].t(), tb.NilIface())))
			}
		}
	}
	e.modelled("registered function literals are verified under the preconditions their dispatcher establishes (operand types of the table entry; declared stack arity)")
}

// bindFreeVars gives the free variables of a function literal verified on its own unconstrained values: a captured
// variable is a cell that exists at entry and holds any well-typed value.
func (e *Enc) bindFreeVars(fn *ssa.Function) {
	e.freeVarVals = nil
	for _, fv := range fn.FreeVars {
		t := e.tb.Const("fv_"+fv.Name(), e.sortOf(fv.Type()))
		e.assumeWF(e.tb.True(), fv.Type(), t)
		if pt, ok := fv.Type().Underlying().(*types.Pointer); ok {
			e.assume(e.tb.True(), e.tb.Gt(t, e.tb.Int(0)))
			if _, isFn := pt.Elem().Underlying().(*types.Signature); isFn {
				e.assume(e.tb.True(), e.tb.Not(e.tb.Eq(e.tb.Select(e.regInit(nil, e.ptrReg(pt.Elem())), t), e.tb.Const("nilFn", "Fn"))))
				e.modelled("captured function values are non-nil")
			}
		}
		if _, ok := fv.Type().Underlying().(*types.Signature); ok {
			e.assume(e.tb.True(), e.tb.Not(e.tb.Eq(t, e.tb.Const("nilFn", "Fn"))))
			e.modelled("captured function values are non-nil")
		}
		e.freeVarVals = append(e.freeVarVals, Val{T: []*Term{t}})
	}
	// distinct cells
	for i := range e.freeVarVals {
		for j := i + 1; j < len(e.freeVarVals); j++ {
			a, b := e.freeVarVals[i].t(), e.freeVarVals[j].t()
			if a.sort == RefSort && b.sort == RefSort {
				e.assume(e.tb.True(), e.tb.Not(e.tb.Eq(a, b)))
			}
		}
	}
}

// stackInputs registers the first argument slots of a stack parameter as model-relevant inputs (for replay).
func (e *Enc) stackInputs(v Val, ty types.Type, st *State, size *Term) {
	tb := e.tb
	s, u := e.structOf(ty)
	var storage, offs *Term
	var stType types.Type
	for i := 0; i < u.NumFields(); i++ {
		switch u.Field(i).Name() {
		case "storage":
			storage = tb.Field(s, i, v.t())
			stType = u.Field(i).Type().Underlying().(*types.Pointer).Elem()
		case "offs":
			offs = tb.Field(s, i, v.t())
		}
	}
	if storage == nil || offs == nil {
		return
	}
	ss, su := e.structOf(stType)
	data := tb.Select(e.reg(st, e.fieldReg(ss, su, 0)), storage)
	sl, ok := su.Field(0).Type().Underlying().(*types.Slice)
	if !ok {
		return
	}
	e.inputs = append(e.inputs, NamedTerm{"stack.size", size})
	var scalars []types.Type
	if pkg := e.L.typesPkg(modPath + "/value"); pkg != nil {
		for _, n := range []string{"Int", "Float", "Bool", "String"} {
			if o := pkg.Scope().Lookup(n); o != nil {
				scalars = append(scalars, o.Type())
			}
		}
	}
	for k := 0; k < 4; k++ {
		ad := &Addr{elem: true, ref: tb.SRef(data), idx: tb.Add(tb.SOff(data), tb.Add(offs, tb.Int(int64(k)))), root: sl.Elem()}
		slot := e.rootRead(st, ad)
		e.inputs = append(e.inputs, NamedTerm{fmt.Sprintf("stack[%d]", k), slot})
		// replay hint: counterexamples with scalar arguments can be turned into programs
		if slot.sort == "Iface" && len(scalars) > 0 {
			var alts []*Term
			for _, t := range scalars {
				alts = append(alts, tb.IsBox(e.typeKey(t), e.sortOf(t), slot))
			}
			e.hints = append(e.hints, tb.Or(alts...))
		}
	}
}
