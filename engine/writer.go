package main

import (
	"go/types"
	"strings"

	"golang.org/x/tools/go/ssa"
)

// Ghost emission log of writers (*bytes.Buffer, *strings.Builder): a sequence of pieces per writer object.
// piece kinds
const (
	pkStr    = 0 // WriteString(s): logstr = s
	pkRune   = 1 // WriteRune(r): logint = r
	pkByte   = 2 // WriteByte(b): logint = b
	pkUEsc   = 3 // fmt.Fprintf(w, "\\u%04x", r): logint = r
	pkOpaque = 9 // anything else
)

func (e *Enc) wReg(name string) *regInfo {
	if r, ok := e.regs[name]; ok {
		return r
	}
	var r *regInfo
	switch name {
	case "W:len":
		r = &regInfo{name: name, sort: arraySort(RefSort, "Int"), typ: types.Typ[types.Int]}
	case "W:kind", "W:int":
		r = &regInfo{name: name, sort: arraySort(RefSort, arraySort("Int", "Int")), typ: types.Typ[types.Int], elem: true}
	case "W:str":
		r = &regInfo{name: name, sort: arraySort(RefSort, arraySort("Int", "Str")), typ: types.Typ[types.String], elem: true}
	}
	e.regs[name] = r
	return r
}

func (e *Enc) logLen(st *State, w *Term) *Term {
	l := e.tb.Select(e.reg(st, e.wReg("W:len")), w)
	if !e.wfDone[l.id] {
		e.wfDone[l.id] = true
		e.assume(e.tb.True(), e.tb.Ge(l, e.tb.Int(0)))
	}
	return l
}

func (e *Enc) logAppend(st *State, w *Term, kind int, iv, sv *Term) {
	tb := e.tb
	n := e.logLen(st, w)
	rk, ri, rs, rl := e.wReg("W:kind"), e.wReg("W:int"), e.wReg("W:str"), e.wReg("W:len")
	hk := e.reg(st, rk)
	e.setReg(st, rk, tb.Store(hk, w, tb.Store(tb.Select(hk, w), n, tb.Int(int64(kind)))))
	if iv != nil {
		hi := e.reg(st, ri)
		e.setReg(st, ri, tb.Store(hi, w, tb.Store(tb.Select(hi, w), n, iv)))
	}
	if sv != nil {
		hs := e.reg(st, rs)
		e.setReg(st, rs, tb.Store(hs, w, tb.Store(tb.Select(hs, w), n, sv)))
	}
	e.setReg(st, rl, tb.Store(e.reg(st, rl), w, tb.Add(n, tb.Int(1))))
	e.modelled("bytes.Buffer / strings.Builder writers append to a ghost emission log and never fail (trusted)")
}

// writerRef extracts the writer object behind a value: a *bytes.Buffer / *strings.Builder ref or an io.Writer boxing one.
func (e *Enc) writerRef(v *Term, t types.Type) *Term {
	if v.sort == RefSort {
		return v
	}
	if v.sort == "Iface" {
		for _, c := range e.tb.ifaceCtors {
			if c.sort == RefSort && (strings.HasSuffix(c.key, "bytes.Buffer") || strings.HasSuffix(c.key, "strings.Builder")) && v.op == "box_"+itoa(c.id) {
				return v.args[0]
			}
		}
		// unknown dynamic type: a per-interface ghost writer object
		return e.tb.Func("writerOf", []string{"Iface"}, RefSort, v)
	}
	return nil
}

func itoa(i int) string {
	return strings.TrimSpace(strings.Replace(strings.Repeat(" ", 0)+intStr(i), " ", "", -1))
}

func intStr(i int) string {
	if i == 0 {
		return "0"
	}
	neg := i < 0
	if neg {
		i = -i
	}
	var b []byte
	for i > 0 {
		b = append([]byte{byte('0' + i%10)}, b...)
		i /= 10
	}
	if neg {
		b = append([]byte{'-'}, b...)
	}
	return string(b)
}

// appendOnlyAfterHavoc relates the writer logs before and after a havoc of everything: logs only grow.
func (e *Enc) appendOnlyAfterHavoc(old, st *State) {
	if !e.useWriterLog {
		return
	}
	tb := e.tb
	r := tb.BoundVar("wr", RefSort)
	i := tb.BoundVar("wi", "Int")
	ol := tb.Select(e.reg(old, e.wReg("W:len")), r)
	nl := tb.Select(e.reg(st, e.wReg("W:len")), r)
	same := func(name string) *Term {
		return tb.Eq(tb.Select(tb.Select(e.reg(st, e.wReg(name)), r), i), tb.Select(tb.Select(e.reg(old, e.wReg(name)), r), i))
	}
	e.assume(tb.True(), tb.Forall([]*Term{r}, tb.Le(ol, nl)))
	e.assume(tb.True(), tb.Forall([]*Term{r, i}, tb.Imp(tb.And(tb.Le(tb.Int(0), i), tb.Lt(i, ol)), tb.And(same("W:kind"), same("W:int"), same("W:str")))))
	e.modelled("writer logs are append-only across calls (no Reset/Truncate in the repository)")
}

func init() {
	wr := func(kind int, arg string) *libSpec {
		return &libSpec{apply: func(e *Enc, fr *Frame, x *ssa.Call, a []Val, st *State) bool {
			tb := e.tb
			w := a[0].t()
			switch arg {
			case "str":
				e.logAppend(st, w, kind, nil, a[1].t())
				fr.vals[x] = Val{T: []*Term{tb.StrLen(a[1].t()), tb.NilIface()}}
			case "rune":
				e.logAppend(st, w, kind, a[1].t(), nil)
				fr.vals[x] = Val{T: []*Term{e.fresh("n", types.Typ[types.Int]), tb.NilIface()}}
			case "byte":
				e.logAppend(st, w, kind, a[1].t(), nil)
				fr.vals[x] = Val{T: []*Term{tb.NilIface()}}
			case "bytes":
				e.logAppend(st, w, pkOpaque, nil, nil)
				fr.vals[x] = Val{T: []*Term{tb.SLen(a[1].t()), tb.NilIface()}}
			}
			return true
		}}
	}
	for _, typ := range []string{"(*bytes.Buffer)", "(*strings.Builder)"} {
		libSpecs[typ+".WriteString"] = wr(pkStr, "str")
		libSpecs[typ+".WriteRune"] = wr(pkRune, "rune")
		libSpecs[typ+".WriteByte"] = wr(pkByte, "byte")
		libSpecs[typ+".Write"] = wr(pkOpaque, "bytes")
	}
	libSpecs["fmt.Fprintf"] = &libSpec{apply: func(e *Enc, fr *Frame, x *ssa.Call, a []Val, st *State) bool {
		tb := e.tb
		w := e.writerRef(a[0].t(), nil)
		if w == nil {
			return false
		}
		kind := pkOpaque
		var iv *Term
		if f, ok := tb.litValue(a[1].t()); ok && f == "\\u%04x" {
			// one integer argument: the \uXXXX escape of that code point
			va := a[2].t()
			row := tb.Select(e.reg(st, e.elemReg(types.NewInterfaceType(nil, nil))), tb.SRef(va))
			arg0 := tb.Select(row, tb.SOff(va))
			if strings.HasPrefix(arg0.op, "box_") && arg0.args[0].sort == "Int" {
				kind, iv = pkUEsc, arg0.args[0]
				e.modelled(`fmt.Fprintf(w, "\\u%04x", r) writes the JSON \uXXXX escape of r (trusted)`)
			}
		}
		e.logAppend(st, w, kind, iv, nil)
		fr.vals[x] = Val{T: []*Term{e.fresh("n", types.Typ[types.Int]), tb.NilIface()}}
		return true
	}}
}
