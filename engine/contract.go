package main

import (
	"fmt"
	"go/ast"
	"go/parser"
	"go/types"
	"regexp"
	"strconv"
	"strings"
)

// clause is one parsed contract clause.
type clause struct {
	kind  string // requires | ensures | invariant | assigns | decreases
	text  string // as written
	expr  ast.Expr
	props []string
	line  string // file:line of the clause (informational)
	label string // optional stable label: `ensures[name] ...`
}

// FuncContract is the contract of one function (or closure, type, interface method).
// iterSpec: `iterates <param> count <E> args <E1>, <E2>`: the function calls its parameter <param> for cbidx = 0, 1, ...
// below count with the given arguments, in this order, and stops as soon as a call returns false.
type iterSpec struct {
	param string
	count ast.Expr
	args  []ast.Expr
	text  string
}

// callbackSpec: `callback "<anchor>" invariant E` / `callback "<anchor>" stopped E` on the caller's side: the function
// literal passed to an iterating function at the call whose text contains the anchor is verified like a loop body.
type callbackSpec struct {
	anchor  string
	invs    []clause
	stopped []clause
}

type FuncContract struct {
	iter      *iterSpec
	yields    string // `yields <param>`: the function calls this callback until it returns false and never after that
	callbacks []*callbackSpec
	relies            []clause // type contracts: conditions every implementation may rely on that are NOT checked at call sites (listed as assumptions)
	pkg               string   // package path the block is declared in
	key               string   // "Recv.Name" or "Name"
	anchor            string   // for closures: source anchor inside the enclosing function
	kind              string   // func | closure | type | iface
	props             []string
	requires          []clause
	ensures           []clause
	invs              map[int][]clause
	assigns           []clause // nil: no assigns clause (everything may be written); empty+assignsNone: nothing
	assignsNone       bool
	decreases         []clause
	panicsNever       bool
	trusted           bool
	safetyProps       []string // properties the K2 obligations of this function belong to
	inlineOK          bool
	noClosures        bool
	pos               string
	used              bool
	opts              map[string]string
	asserts           []midAssert
	implOf            *types.Signature    // interface method signature (implementation units)
	laws              []string            // table blocks: algebraic laws over the entries
	lawProps          map[string][]string // law -> property ids (default: the block's)
	variants          map[int]clause      // loop ordinal -> decreases expression
	ghostStmts        []ghostStmt         // ghost assignments executed after an anchored call
	closureSpecs      []closureSpec       // function literals created by the function: verified at their creation site
	ghostReturn       []ghostStmt         // ghost assignments executed at every return of the function
	assertsAfter      []midAssert         // assertions checked right after an anchored call
	chanValue, chanOK clause              // channel blocks: received value / ok flag
	chanEffects       []ghostStmt         // channel blocks: ghost updates on a successful receive
	pureParams        map[string]bool     // function-typed parameters / captured variables that are pure functions of their arguments
	implIface         types.Type
}

// closureSpec: `closure-spec "<anchor>" as <TypeName> [attr g(self) = E, ...]`. The function literal whose source contains
// the anchor (or the bound method value named `$bound:<method>`) gets the ghost attributes and is verified against the
// type contract of <TypeName> where it is created.
type closureSpec struct {
	anchor   string
	typeName string
	attrs    []ghostStmt
	assumes  []clause // facts about captured, configuration-like state that still hold when the literal is invoked (assumed)
	text     string
	trusted  bool     // the attributes are assumed, the body is not verified (listed as an assumption)
	returns  []clause // extra postconditions of this literal (over its parameters, results and the captured variables)
	when     []clause // proved where the literal is created: the literal is created only in states satisfying E
}

type ghostStmt struct {
	anchor string
	target ast.Expr // ghost variable application
	value  ast.Expr
	text   string
}

type midAssert struct {
	anchor string
	cl     clause
}

func (c *FuncContract) assignsNothing() bool { return c != nil && c.assignsNone }

// GhostFunc is an uninterpreted (or defined) specification function.
type immutableDecl struct {
	pkg  string
	text string // T.f
}

type typeInv struct {
	rep  bool // representation clause: a definition (assumed when a value is boxed); otherwise proved when boxed
	cl   clause
	pkg  string
	name string
}

type GhostFunc struct {
	name   string
	params []ghostParam
	result string   // Go type text
	body   ast.Expr // predicate definitions: expanded inline
	isVar  bool     // ghost state: a mutable map from the argument to the value (a heap register)
	pkg    string
}

type ghostParam struct{ name, typ string }

type Lemma struct {
	name  string
	pkg   string
	text  string
	expr  ast.Expr
	props []string
	opts  map[string]string
}

type ContractSet struct {
	funcs     map[string]*FuncContract // pkgpath + "::" + key [+ "@" + anchor]
	types     map[string]*FuncContract // pkgpath::TypeName
	ifaces    map[string]*FuncContract // pkgpath::Iface.Method
	ghosts    map[string]*GhostFunc    // name (global namespace)
	lemmas    []*Lemma
	immutable []immutableDecl // registers that never change after construction (AST nodes after parsing)
	axioms    []*Lemma
	typeInvs  map[string][]typeInv // pkgpath::TypeName -> invariants / representation clauses
	order     []*FuncContract
	errors    []string
	suffixProps map[string][]string // obligation-name suffix -> additional property ids (`obligation-property`)
	derived   map[string]derivedProp // property id -> the obligations of other properties on some instantiations
}

// derivedProp: `instantiation-property C19: C01, C02, C03 for bool, float64` - the obligations that the generic
// contracts of the base properties generate for the named type arguments count for the derived property.
type derivedProp struct {
	bases []string
	insts []string
}

func newContractSet() *ContractSet {
	return &ContractSet{funcs: map[string]*FuncContract{}, types: map[string]*FuncContract{}, ifaces: map[string]*FuncContract{}, ghosts: map[string]*GhostFunc{}, typeInvs: map[string][]typeInv{}}
}

var reFuncHead = regexp.MustCompile(`^func\s+(?:\(\s*\w*\s*\*?\s*([\w]+)(?:\[[^\]]*\])?\s*\)\s*)?(\w+)\s*(.*)$`)

// parseContractComments reads all //@ lines of one file (already split into comment text lines).
func (cs *ContractSet) parseFile(pkgPath, filename string, lines []string, lineNos []int) {
	var cur *FuncContract
	var curLemma *Lemma
	// join continuation lines
	var joined []string
	var jl []int
	for i := 0; i < len(lines); i++ {
		l := strings.TrimSpace(lines[i])
		no := lineNos[i]
		for strings.HasSuffix(l, "\\") && i+1 < len(lines) {
			i++
			l = strings.TrimSuffix(l, "\\") + " " + strings.TrimSpace(lines[i])
		}
		joined = append(joined, l)
		jl = append(jl, no)
	}
	for i, l := range joined {
		where := fmt.Sprintf("%s:%d", shortPath(filename), jl[i])
		if l == "" || strings.HasPrefix(l, "#") {
			continue
		}
		word, rest := splitWord(l)
		switch word {
		case "func":
			m := reFuncHead.FindStringSubmatch(l)
			if m == nil {
				cs.errors = append(cs.errors, where+": cannot parse function head: "+l)
				cur = nil
				continue
			}
			key := m[2]
			if m[1] != "" {
				key = m[1] + "." + m[2]
			}
			cur = &FuncContract{pkg: pkgPath, key: key, kind: "func", invs: map[int][]clause{}, pos: where, opts: map[string]string{}}
			cs.funcs[pkgPath+"::"+key] = cur
			cs.order = append(cs.order, cur)
			curLemma = nil
		case "closure":
			// closure <funcKey> anchor "text"
			m := regexp.MustCompile(`^closure\s+([\w.]+)\s+anchor\s+("(?:[^"\\]|\\.)*")\s*$`).FindStringSubmatch(l)
			if m == nil {
				cs.errors = append(cs.errors, where+": cannot parse closure head: "+l)
				cur = nil
				continue
			}
			anchor, _ := strconv.Unquote(m[2])
			cur = &FuncContract{pkg: pkgPath, key: m[1], anchor: anchor, kind: "closure", invs: map[int][]clause{}, pos: where, opts: map[string]string{}}
			cs.funcs[pkgPath+"::"+m[1]+"@"+anchor] = cur
			cs.order = append(cs.order, cur)
			curLemma = nil
		case "table", "entry":
			// table <Name>            : every function literal registered inside top-level function <Name>
			// entry <Table> <name>    : contract of one registered function literal, e.g. `entry New op:!=`
			fields := strings.Fields(rest)
			if (word == "table" && len(fields) != 1) || (word == "entry" && len(fields) != 2) {
				cs.errors = append(cs.errors, where+": expected `table <Func>` or `entry <Func> <name>`")
				cur = nil
				continue
			}
			key := fields[0]
			if word == "entry" {
				key += "$" + fields[1]
			}
			cur = &FuncContract{pkg: pkgPath, key: key, kind: word, invs: map[int][]clause{}, pos: where, opts: map[string]string{}}
			cs.funcs[pkgPath+"::"+word+":"+key] = cur
			cs.order = append(cs.order, cur)
			curLemma = nil
		case "flags":
			// flags <Func> : the operators <Func> registers as commutative have the laws the optimizer relies on
			name := strings.TrimSpace(rest)
			cur = &FuncContract{pkg: pkgPath, key: name, kind: "flags", invs: map[int][]clause{}, pos: where, opts: map[string]string{}}
			cs.funcs[pkgPath+"::flags:"+name] = cur
			cs.order = append(cs.order, cur)
			curLemma = nil
		case "channel":
			// channel <Type>.<field> : ghost protocol of receives from that channel field
			name := strings.TrimSpace(rest)
			cur = &FuncContract{pkg: pkgPath, key: name, kind: "channel", invs: map[int][]clause{}, pos: where, opts: map[string]string{}}
			cs.funcs[pkgPath+"::channel:"+name] = cur
			cs.order = append(cs.order, cur)
			curLemma = nil
		case "value", "ok":
			if cur == nil || cur.kind != "channel" {
				cs.errors = append(cs.errors, where+": `"+word+"` belongs to a channel block")
				continue
			}
			ex, err := parseSpecExpr(rest)
			if err != nil {
				cs.errors = append(cs.errors, where+": "+err.Error())
				continue
			}
			if word == "value" {
				cur.chanValue = clause{kind: word, text: rest, expr: ex, line: where}
			} else {
				cur.chanOK = clause{kind: word, text: rest, expr: ex, line: where}
			}
		case "closure-spec":
			if cur == nil {
				cs.errors = append(cs.errors, where+": closure-spec outside a block")
				continue
			}
			rest = strings.TrimSpace(rest)
			var assumeTxt string
			trustedSpec := false
			if strings.HasSuffix(rest, " trusted") {
				trustedSpec = true
				rest = strings.TrimSpace(strings.TrimSuffix(rest, " trusted"))
			}
			if k := indexTop(rest, " assume "); k >= 0 {
				assumeTxt = strings.TrimSpace(rest[k+8:])
				rest = strings.TrimSpace(rest[:k])
			}
			var retTxt, retLabel string
			if k := indexTop(rest, " returns"); k >= 0 && (strings.HasPrefix(rest[k+8:], " ") || strings.HasPrefix(rest[k+8:], "[")) {
				retTxt = strings.TrimSpace(rest[k+8:])
				rest = strings.TrimSpace(rest[:k])
				if strings.HasPrefix(retTxt, "[") {
					j := strings.Index(retTxt, "]")
					retLabel = strings.TrimSpace(retTxt[1:j])
					retTxt = strings.TrimSpace(retTxt[j+1:])
				}
			}
			var whenTxt, whenLabel string
			if k := indexTop(rest, " when"); k >= 0 && (strings.HasPrefix(rest[k+5:], " ") || strings.HasPrefix(rest[k+5:], "[")) {
				whenTxt = strings.TrimSpace(rest[k+5:])
				rest = strings.TrimSpace(rest[:k])
				if strings.HasPrefix(whenTxt, "[") {
					j := strings.Index(whenTxt, "]")
					whenLabel = strings.TrimSpace(whenTxt[1:j])
					whenTxt = strings.TrimSpace(whenTxt[j+1:])
				}
			}
			m := regexp.MustCompile(`^("(?:[^"\\]|\\.)*")\s+as\s+([\w.]+)\s*(?:attr\s+(.*))?$`).FindStringSubmatch(rest)
			if m == nil {
				cs.errors = append(cs.errors, where+": expected closure-spec \"anchor\" as Type [attr g(self) = E, ...]")
				continue
			}
			anchor, _ := strconv.Unquote(m[1])
			spec := closureSpec{anchor: anchor, typeName: m[2], text: rest, trusted: trustedSpec}
			if m[3] != "" {
				for _, part := range splitTop(m[3], ',') {
					k := indexTop(part, "=")
					if k < 0 {
						cs.errors = append(cs.errors, where+": attr needs g(self) = E")
						continue
					}
					tx, err1 := parseSpecExpr(strings.TrimSpace(part[:k]))
					vx, err2 := parseSpecExpr(strings.TrimSpace(part[k+1:]))
					if err1 != nil || err2 != nil {
						cs.errors = append(cs.errors, where+": cannot parse attr")
						continue
					}
					spec.attrs = append(spec.attrs, ghostStmt{target: tx, value: vx, text: strings.TrimSpace(part)})
				}
			}
			if retTxt != "" {
				ex, err := parseSpecExpr(retTxt)
				if err != nil {
					cs.errors = append(cs.errors, where+": "+err.Error())
				} else {
					if retLabel == "" {
						retLabel = "returns"
					}
					spec.returns = append(spec.returns, clause{kind: "ensures", text: retTxt, expr: ex, line: where, label: retLabel})
				}
			}
			if whenTxt != "" {
				ex, err := parseSpecExpr(whenTxt)
				if err != nil {
					cs.errors = append(cs.errors, where+": "+err.Error())
				} else {
					if whenLabel == "" {
						whenLabel = "created-when"
					}
					spec.when = append(spec.when, clause{kind: "when", text: whenTxt, expr: ex, line: where, label: whenLabel})
				}
			}
			if assumeTxt != "" {
				ex, err := parseSpecExpr(assumeTxt)
				if err != nil {
					cs.errors = append(cs.errors, where+": "+err.Error())
				} else {
					spec.assumes = append(spec.assumes, clause{kind: "assume", text: assumeTxt, expr: ex, line: where})
				}
			}
			cur.closureSpecs = append(cur.closureSpecs, spec)
		case "effect", "ghost-set", "ghost-return":
			// effect g(x) = E          (channel blocks)
			// ghost-set "<anchor>" g(x) = E   (function blocks: executed right after the first call containing the anchor)
			if cur == nil {
				cs.errors = append(cs.errors, where+": `"+word+"` outside a block")
				continue
			}
			txt := strings.TrimSpace(rest)
			anchor := ""
			if word == "ghost-set" {
				m := regexp.MustCompile(`^("(?:[^"\\]|\\.)*")\s+(.*)$`).FindStringSubmatch(txt)
				if m == nil {
					cs.errors = append(cs.errors, where+": expected ghost-set \"anchor\" g(x) = E")
					continue
				}
				anchor, _ = strconv.Unquote(m[1])
				txt = m[2]
			}
			k := indexTop(txt, "=")
			if k < 0 {
				cs.errors = append(cs.errors, where+": expected g(x) = E")
				continue
			}
			tx, err1 := parseSpecExpr(strings.TrimSpace(txt[:k]))
			vx, err2 := parseSpecExpr(strings.TrimSpace(txt[k+1:]))
			if err1 != nil || err2 != nil {
				cs.errors = append(cs.errors, where+": cannot parse ghost assignment")
				continue
			}
			gs := ghostStmt{anchor: anchor, target: tx, value: vx, text: txt}
			if word == "effect" {
				cur.chanEffects = append(cur.chanEffects, gs)
			} else if word == "ghost-return" {
				cur.ghostReturn = append(cur.ghostReturn, gs)
			} else {
				cur.ghostStmts = append(cur.ghostStmts, gs)
			}
		case "type-contract":
			name := strings.TrimSpace(rest)
			cur = &FuncContract{pkg: pkgPath, key: name, kind: "type", invs: map[int][]clause{}, pos: where, opts: map[string]string{}}
			if strings.Contains(name, "::") {
				// a named type of a dependency, `<package path>::<Name>`: an assumed contract of foreign code
				cs.types[name] = cur
				cur.key = name[strings.LastIndex(name, "/")+1:]
			} else {
				cs.types[pkgPath+"::"+name] = cur
			}
			cs.order = append(cs.order, cur)
			curLemma = nil
		case "interface-contract":
			name := strings.TrimSpace(rest)
			cur = &FuncContract{pkg: pkgPath, key: name, kind: "iface", invs: map[int][]clause{}, pos: where, opts: map[string]string{}}
			cs.ifaces[pkgPath+"::"+name] = cur
			cs.order = append(cs.order, cur)
			curLemma = nil
		case "ghost", "predicate":
			g, err := parseGhost(word, rest)
			if err != nil {
				cs.errors = append(cs.errors, where+": "+err.Error())
				continue
			}
			g.pkg = pkgPath
			cs.ghosts[g.name] = g
			cur, curLemma = nil, nil
		case "obligation-property":
			// obligation-property <name suffix>: C10, C01   - obligations whose name ends with the suffix also count for these
			j := strings.Index(rest, ":")
			if j < 0 {
				cs.errors = append(cs.errors, where+": expected `obligation-property <suffix>: Cxx, ...`")
				continue
			}
			if cs.suffixProps == nil {
				cs.suffixProps = map[string][]string{}
			}
			for _, w := range strings.Fields(strings.ReplaceAll(rest[j+1:], ",", " ")) {
				cs.suffixProps[strings.TrimSpace(rest[:j])] = append(cs.suffixProps[strings.TrimSpace(rest[:j])], w)
			}
			cur, curLemma = nil, nil
		case "instantiation-property":
			m := regexp.MustCompile(`^(C\d+)\s*:\s*(.*?)\s+for\s+(.*)$`).FindStringSubmatch(strings.TrimSpace(rest))
			if m == nil {
				cs.errors = append(cs.errors, where+": expected `instantiation-property Cxx: Cyy, Czz for T1, T2`")
				continue
			}
			var d derivedProp
			for _, b := range strings.Split(m[2], ",") {
				d.bases = append(d.bases, strings.TrimSpace(b))
			}
			for _, t := range strings.Split(m[3], ",") {
				d.insts = append(d.insts, strings.TrimSpace(t))
			}
			if cs.derived == nil {
				cs.derived = map[string]derivedProp{}
			}
			cs.derived[m[1]] = d
			cur, curLemma = nil, nil
		case "immutable":
			for _, part := range splitTop(rest, ',') {
				if p := strings.TrimSpace(part); p != "" {
					cs.immutable = append(cs.immutable, immutableDecl{pkg: pkgPath, text: p})
				}
			}
			cur, curLemma = nil, nil
		case "axiom":
			j := strings.Index(rest, ":")
			if j < 0 {
				cs.errors = append(cs.errors, where+": axiom needs `name: expr`")
				continue
			}
			lm := &Lemma{name: strings.TrimSpace(rest[:j]), pkg: pkgPath, text: strings.TrimSpace(rest[j+1:]), opts: map[string]string{}}
			ex, err := parseSpecExpr(lm.text)
			if err != nil {
				cs.errors = append(cs.errors, where+": "+err.Error())
				continue
			}
			lm.expr = ex
			cs.axioms = append(cs.axioms, lm)
			cur, curLemma = nil, nil
		case "type-invariant", "representation":
			// type-invariant T: E      (self = the value of type T)
			j := strings.Index(rest, ":")
			if j < 0 {
				cs.errors = append(cs.errors, where+": expected `"+word+" T: expr`")
				continue
			}
			tn := strings.TrimSpace(rest[:j])
			txt := strings.TrimSpace(rest[j+1:])
			ex, err := parseSpecExpr(txt)
			if err != nil {
				cs.errors = append(cs.errors, where+": "+err.Error())
				continue
			}
			key := pkgPath + "::" + tn
			cs.typeInvs[key] = append(cs.typeInvs[key], typeInv{rep: word == "representation", pkg: pkgPath, name: tn, cl: clause{kind: word, text: txt, expr: ex, line: where}})
			cur, curLemma = nil, nil
		case "lemma":
			// lemma name: expr
			j := strings.Index(rest, ":")
			if j < 0 {
				cs.errors = append(cs.errors, where+": lemma needs `name: expr`")
				continue
			}
			lm := &Lemma{name: strings.TrimSpace(rest[:j]), pkg: pkgPath, text: strings.TrimSpace(rest[j+1:]), opts: map[string]string{}}
			ex, err := parseSpecExpr(lm.text)
			if err != nil {
				cs.errors = append(cs.errors, where+": "+err.Error())
				continue
			}
			lm.expr = ex
			cs.lemmas = append(cs.lemmas, lm)
			cur, curLemma = nil, lm
		case "property":
			ps := strings.Fields(strings.ReplaceAll(rest, ",", " "))
			if cur != nil {
				cur.props = append(cur.props, ps...)
			} else if curLemma != nil {
				curLemma.props = append(curLemma.props, ps...)
			}
		case "safety":
			if cur != nil {
				cur.safetyProps = append(cur.safetyProps, strings.Fields(strings.ReplaceAll(rest, ",", " "))...)
			}
		case "option":
			kv := strings.SplitN(strings.TrimSpace(rest), "=", 2)
			v := "true"
			if len(kv) == 2 {
				v = strings.TrimSpace(kv[1])
			}
			if cur != nil {
				cur.opts[strings.TrimSpace(kv[0])] = v
			} else if curLemma != nil {
				curLemma.opts[strings.TrimSpace(kv[0])] = v
			}
		case "trusted":
			if cur != nil {
				cur.trusted = true
			}
		case "pure":
			// pure f, g : the function-typed parameters (or captured variables) f and g assign nothing and are deterministic
			if cur != nil {
				if cur.pureParams == nil {
					cur.pureParams = map[string]bool{}
				}
				for _, n := range strings.Fields(strings.ReplaceAll(rest, ",", " ")) {
					cur.pureParams[n] = true
				}
			}
		case "yields":
			if cur == nil {
				cs.errors = append(cs.errors, where+": yields outside a block")
				continue
			}
			cur.yields = strings.TrimSpace(rest)
		case "iterates":
			if cur == nil {
				cs.errors = append(cs.errors, where+": iterates outside a block")
				continue
			}
			m := regexp.MustCompile(`^(\w+)\s+count\s+(.*?)\s+args\s+(.*)$`).FindStringSubmatch(strings.TrimSpace(rest))
			if m == nil {
				cs.errors = append(cs.errors, where+": expected `iterates <param> count <E> args <E1>, <E2>`")
				continue
			}
			it := &iterSpec{param: m[1], text: strings.TrimSpace(rest)}
			ce, err := parseSpecExpr(m[2])
			if err != nil {
				cs.errors = append(cs.errors, where+": "+err.Error())
				continue
			}
			it.count = ce
			okAll := true
			for _, part := range splitTop(m[3], ',') {
				ae, err := parseSpecExpr(strings.TrimSpace(part))
				if err != nil {
					cs.errors = append(cs.errors, where+": "+err.Error())
					okAll = false
					continue
				}
				it.args = append(it.args, ae)
			}
			if okAll {
				cur.iter = it
			}
		case "callback":
			if cur == nil {
				cs.errors = append(cs.errors, where+": callback outside a block")
				continue
			}
			m := regexp.MustCompile(`^("(?:[^"\\]|\\.)*")\s+(invariant|stopped)(?:\[([^\]]*)\])?\s+(.*)$`).FindStringSubmatch(strings.TrimSpace(rest))
			if m == nil {
				cs.errors = append(cs.errors, where+": expected `callback \"anchor\" invariant|stopped E`")
				continue
			}
			anchor, _ := strconv.Unquote(m[1])
			ex, err := parseSpecExpr(m[4])
			if err != nil {
				cs.errors = append(cs.errors, where+": "+err.Error())
				continue
			}
			var cbProps []string
			for _, w := range strings.Fields(strings.ReplaceAll(m[3], ",", " ")) {
				if regexp.MustCompile(`^C\d+$`).MatchString(w) {
					cbProps = append(cbProps, w)
				}
			}
			var cb *callbackSpec
			for _, x := range cur.callbacks {
				if x.anchor == anchor {
					cb = x
				}
			}
			if cb == nil {
				cb = &callbackSpec{anchor: anchor}
				cur.callbacks = append(cur.callbacks, cb)
			}
			cl := clause{kind: "callback-" + m[2], text: m[4], expr: ex, line: where, props: cbProps}
			if m[2] == "invariant" {
				cb.invs = append(cb.invs, cl)
			} else {
				cb.stopped = append(cb.stopped, cl)
			}
		case "law":
			if cur != nil && cur.kind == "table" {
				// law <name> [args]   |   law[C02,C19] <name> [args]   (property ids for this law only)
				txt := strings.TrimSpace(rest)
				if strings.HasPrefix(txt, "[") {
					j := strings.Index(txt, "]")
					var ps []string
					for _, w := range strings.Fields(strings.ReplaceAll(txt[1:j], ",", " ")) {
						ps = append(ps, w)
					}
					txt = strings.TrimSpace(txt[j+1:])
					if cur.lawProps == nil {
						cur.lawProps = map[string][]string{}
					}
					cur.lawProps[txt] = ps
				}
				cur.laws = append(cur.laws, txt)
			} else {
				cs.errors = append(cs.errors, where+": `law` belongs to a table block")
			}
		case "panics":
			if cur != nil && strings.TrimSpace(rest) == "never" {
				cur.panicsNever = true
			}
		case "assert", "assert-after":
			// assert[label] "<anchor>" E
			if cur == nil {
				cs.errors = append(cs.errors, where+": assert outside a contract block")
				continue
			}
			rest = strings.TrimSpace(rest)
			label := ""
			var aprops []string
			if strings.HasPrefix(rest, "[") {
				j := strings.Index(rest, "]")
				for _, w := range strings.Fields(strings.ReplaceAll(rest[1:j], ",", " ")) {
					if regexp.MustCompile(`^C\d+$`).MatchString(w) {
						aprops = append(aprops, w)
					} else {
						label = w
					}
				}
				rest = strings.TrimSpace(rest[j+1:])
			}
			m := regexp.MustCompile(`^("(?:[^"\\]|\\.)*")\s+(.*)$`).FindStringSubmatch(rest)
			if m == nil {
				cs.errors = append(cs.errors, where+": expected assert \"anchor\" E")
				continue
			}
			anchor, _ := strconv.Unquote(m[1])
			ex, err := parseSpecExpr(m[2])
			if err != nil {
				cs.errors = append(cs.errors, where+": "+err.Error())
				continue
			}
			if label == "" {
				label = fmt.Sprintf("assert%d", len(cur.asserts)+1)
			}
			if word == "assert-after" {
				cur.assertsAfter = append(cur.assertsAfter, midAssert{anchor: anchor, cl: clause{kind: "assert", text: m[2], expr: ex, line: where, label: label, props: aprops}})
			} else {
				cur.asserts = append(cur.asserts, midAssert{anchor: anchor, cl: clause{kind: "assert", text: m[2], expr: ex, line: where, label: label, props: aprops}})
			}
		case "requires", "ensures", "decreases", "assigns", "invariant", "loop", "rely":
			if cur == nil {
				cs.errors = append(cs.errors, where+": clause outside a contract block: "+l)
				continue
			}
			kind := word
			loopNo := 0
			if word == "loop" { // loop <k> invariant E
				w2, r2 := splitWord(rest)
				n, err := strconv.Atoi(w2)
				w3, r3 := splitWord(r2)
				if err != nil || (w3 != "invariant" && w3 != "decreases") {
					cs.errors = append(cs.errors, where+": expected `loop <k> invariant E` or `loop <k> decreases E`")
					continue
				}
				loopNo, kind, rest = n, "invariant", r3
				if w3 == "decreases" {
					kind = "loop-decreases"
				}
			}
			label := ""
			var props []string
			rest = strings.TrimSpace(rest)
			if strings.HasPrefix(rest, "[") { // ensures[label C01,C02] expr   (label and/or property ids)
				j := strings.Index(rest, "]")
				for _, w := range strings.Fields(strings.ReplaceAll(rest[1:j], ",", " ")) {
					if regexp.MustCompile(`^C\d+$`).MatchString(w) {
						props = append(props, w)
					} else {
						label = w
					}
				}
				rest = strings.TrimSpace(rest[j+1:])
			}
			cl := clause{kind: kind, text: rest, line: where, label: label, props: props}
			if kind == "assigns" {
				if rest == "nothing" {
					cur.assignsNone = true
					cur.assigns = []clause{}
					continue
				}
				for _, part := range splitTop(rest, ',') {
					part = strings.TrimSpace(part)
					c2 := cl
					c2.text = part
					if part == "fresh" {
						if cur.assigns == nil {
							cur.assigns = []clause{}
						}
						continue
					}
					if strings.HasPrefix(part, "any ") {
						// register-level location: `any T.f` (field f of every T object) or `any []T` (elements of every []T)
						c2.kind = "assigns-any"
						c2.text = strings.TrimSpace(part[4:])
						cur.assigns = append(cur.assigns, c2)
						continue
					}
					// `x.f[*]` -> all elements
					ptxt := strings.ReplaceAll(part, "[*]", "[all_]")
					ex, err := parseSpecExpr(ptxt)
					if err != nil {
						cs.errors = append(cs.errors, where+": "+err.Error())
						continue
					}
					c2.expr = ex
					cur.assigns = append(cur.assigns, c2)
				}
				if cur.assigns == nil {
					cur.assigns = []clause{}
				}
				if len(cur.assigns) == 0 {
					cur.assignsNone = true
				}
				continue
			}
			ex, err := parseSpecExpr(rest)
			if err != nil {
				cs.errors = append(cs.errors, where+": "+err.Error()+" in: "+rest)
				continue
			}
			cl.expr = ex
			switch kind {
			case "requires":
				cur.requires = append(cur.requires, cl)
			case "rely":
				cur.relies = append(cur.relies, cl)
			case "ensures":
				cur.ensures = append(cur.ensures, cl)
			case "decreases":
				cur.decreases = append(cur.decreases, cl)
			case "invariant":
				if loopNo == 0 {
					loopNo = 1
				}
				cur.invs[loopNo] = append(cur.invs[loopNo], cl)
			case "loop-decreases":
				if cur.variants == nil {
					cur.variants = map[int]clause{}
				}
				cur.variants[loopNo] = cl
			}
		default:
			cs.errors = append(cs.errors, where+": unknown contract line: "+l)
		}
	}
}

func splitWord(s string) (string, string) {
	s = strings.TrimSpace(s)
	for i, c := range s {
		if c == ' ' || c == '\t' || c == '[' {
			if c == '[' {
				return s[:i], s[i:]
			}
			return s[:i], strings.TrimSpace(s[i:])
		}
	}
	return s, ""
}

// ghost func name(p T, q U) R     |    predicate name(p T) = expr
func parseGhost(word, rest string) (*GhostFunc, error) {
	rest = strings.TrimSpace(rest)
	isVar := false
	if word == "ghost" {
		switch {
		case strings.HasPrefix(rest, "func "):
			rest = strings.TrimSpace(rest[5:])
		case strings.HasPrefix(rest, "var "):
			rest = strings.TrimSpace(rest[4:])
			isVar = true
		default:
			return nil, fmt.Errorf("expected `ghost func` or `ghost var`")
		}
	}
	i := strings.Index(rest, "(")
	if i < 0 {
		return nil, fmt.Errorf("ghost: missing parameter list")
	}
	g := &GhostFunc{name: strings.TrimSpace(rest[:i]), isVar: isVar}
	depth, j := 0, i
	for ; j < len(rest); j++ {
		if rest[j] == '(' {
			depth++
		} else if rest[j] == ')' {
			depth--
			if depth == 0 {
				break
			}
		}
	}
	plist := rest[i+1 : j]
	for _, p := range splitTop(plist, ',') {
		p = strings.TrimSpace(p)
		if p == "" {
			continue
		}
		k := strings.IndexAny(p, " \t")
		if k < 0 {
			return nil, fmt.Errorf("ghost %s: parameter needs a type: %s", g.name, p)
		}
		g.params = append(g.params, ghostParam{name: p[:k], typ: strings.TrimSpace(p[k:])})
	}
	tail := strings.TrimSpace(rest[j+1:])
	if word == "predicate" {
		k := strings.Index(tail, "=")
		if k < 0 {
			return nil, fmt.Errorf("predicate %s: expected `= expr`", g.name)
		}
		tail = tail[k:]
		ex, err := parseSpecExpr(strings.TrimSpace(tail[1:]))
		if err != nil {
			return nil, err
		}
		g.body = ex
		g.result = "bool"
		return g, nil
	}
	if k := strings.Index(tail, "="); k >= 0 {
		ex, err := parseSpecExpr(strings.TrimSpace(tail[k+1:]))
		if err != nil {
			return nil, err
		}
		g.body = ex
		tail = strings.TrimSpace(tail[:k])
	}
	g.result = tail
	if g.result == "" {
		g.result = "bool"
	}
	return g, nil
}

// splitTop splits at a separator that is not nested in brackets or quotes.
func splitTop(s string, sep byte) []string {
	var parts []string
	depth := 0
	start := 0
	inStr := byte(0)
	for i := 0; i < len(s); i++ {
		c := s[i]
		if inStr != 0 {
			if c == '\\' {
				i++
			} else if c == inStr {
				inStr = 0
			}
			continue
		}
		switch c {
		case '"', '\'', '`':
			inStr = c
		case '(', '[', '{':
			depth++
		case ')', ']', '}':
			depth--
		default:
			if c == sep && depth == 0 {
				parts = append(parts, s[start:i])
				start = i + 1
			}
		}
	}
	parts = append(parts, s[start:])
	return parts
}

// ---- spec expression syntax: Go expressions + ==>, <==>, forall/exists ----

func parseSpecExpr(s string) (ast.Expr, error) {
	// $name: a program variable whose name is a keyword of the specification language (exists, forall, old, ...)
	s = regexp.MustCompile(`\$(\w+)`).ReplaceAllString(s, "dollar__$1")
	g, err := rewriteSpec(s)
	if err != nil {
		return nil, err
	}
	ex, err := parser.ParseExpr(g)
	if err != nil {
		return nil, fmt.Errorf("spec expression %q (rewritten %q): %v", s, g, err)
	}
	return ex, nil
}

// indexTop finds the first occurrence of tok at nesting depth 0, outside string literals; -1 if none.
func indexTop(s, tok string) int {
	depth := 0
	inStr := byte(0)
	for i := 0; i < len(s); i++ {
		c := s[i]
		if inStr != 0 {
			if c == '\\' {
				i++
			} else if c == inStr {
				inStr = 0
			}
			continue
		}
		switch c {
		case '"', '\'', '`':
			inStr = c
			continue
		case '(', '[', '{':
			depth++
			continue
		case ')', ']', '}':
			depth--
			continue
		}
		if depth == 0 && strings.HasPrefix(s[i:], tok) {
			return i
		}
	}
	return -1
}

func isIdentChar(c byte) bool {
	return c == '_' || (c >= 'a' && c <= 'z') || (c >= 'A' && c <= 'Z') || (c >= '0' && c <= '9')
}

func indexTopKeyword(s string, kws ...string) (int, string) {
	best, bk := -1, ""
	for _, kw := range kws {
		from := 0
		for {
			i := indexTop(s[from:], kw)
			if i < 0 {
				break
			}
			i += from
			okL := i == 0 || !isIdentChar(s[i-1])
			okR := i+len(kw) < len(s) && (s[i+len(kw)] == ' ')
			if okL && okR {
				if best < 0 || i < best {
					best, bk = i, kw
				}
				break
			}
			from = i + len(kw)
		}
	}
	return best, bk
}

func rewriteSpec(s string) (string, error) {
	s = strings.TrimSpace(s)
	// quantifier: extends to the end of this level
	if p, kw := indexTopKeyword(s, "forall", "exists"); p >= 0 {
		head := s[:p]
		q := s[p+len(kw):]
		sep := indexTop(q, "::")
		if sep < 0 {
			return "", fmt.Errorf("quantifier without `::` in %q", s)
		}
		hdr := strings.TrimSpace(q[:sep])
		body, err := rewriteSpec(q[sep+2:])
		if err != nil {
			return "", err
		}
		var Q string
		if in := indexTop(hdr, " in "); in >= 0 {
			v := strings.TrimSpace(hdr[:in])
			rng := hdr[in+4:]
			dd := indexTop(rng, "..")
			if dd < 0 {
				return "", fmt.Errorf("quantifier range needs lo..hi in %q", s)
			}
			lo, err := rewriteSpec(rng[:dd])
			if err != nil {
				return "", err
			}
			hi, err := rewriteSpec(rng[dd+2:])
			if err != nil {
				return "", err
			}
			Q = fmt.Sprintf("%s_(%s, %s, func(%s int) bool { return %s })", kw, lo, hi, v, body)
		} else {
			// `forall x T, y U :: body`
			Q = fmt.Sprintf("%sT_(func(%s) bool { return %s })", kw, hdr, body)
		}
		return rewriteHead(head, Q)
	}
	return rewriteImp(s)
}

// rewriteHead handles `head Q` where Q is an already rewritten quantifier that ends the level.
func rewriteHead(head, Q string) (string, error) {
	if p := indexTop(head, "<==>"); p >= 0 {
		a, err := rewriteImp(head[:p])
		if err != nil {
			return "", err
		}
		b, err := rewriteHead(head[p+4:], Q)
		if err != nil {
			return "", err
		}
		return "iff_(" + a + ", " + b + ")", nil
	}
	if p := indexTop(head, "==>"); p >= 0 {
		a, err := rewriteImp(head[:p])
		if err != nil {
			return "", err
		}
		b, err := rewriteHead(head[p+3:], Q)
		if err != nil {
			return "", err
		}
		return "implies_(" + a + ", " + b + ")", nil
	}
	a, err := rewriteGroups(head)
	if err != nil {
		return "", err
	}
	return a + Q, nil
}

func rewriteImp(s string) (string, error) {
	if p := indexTop(s, "<==>"); p >= 0 {
		a, err := rewriteImp(s[:p])
		if err != nil {
			return "", err
		}
		b, err := rewriteImp(s[p+4:])
		if err != nil {
			return "", err
		}
		return "iff_(" + a + ", " + b + ")", nil
	}
	if p := indexTop(s, "==>"); p >= 0 {
		a, err := rewriteImp(s[:p])
		if err != nil {
			return "", err
		}
		b, err := rewriteImp(s[p+3:])
		if err != nil {
			return "", err
		}
		return "implies_(" + a + ", " + b + ")", nil
	}
	return rewriteGroups(s)
}

// rewriteGroups applies rewriteSpec inside every bracketed group of s.
func rewriteGroups(s string) (string, error) {
	var out strings.Builder
	inStr := byte(0)
	for i := 0; i < len(s); i++ {
		c := s[i]
		if inStr != 0 {
			out.WriteByte(c)
			if c == '\\' && i+1 < len(s) {
				i++
				out.WriteByte(s[i])
			} else if c == inStr {
				inStr = 0
			}
			continue
		}
		switch c {
		case '"', '\'', '`':
			inStr = c
			out.WriteByte(c)
		case '(', '[', '{':
			// find the matching close
			depth, j := 0, i
			in2 := byte(0)
			for ; j < len(s); j++ {
				d := s[j]
				if in2 != 0 {
					if d == '\\' {
						j++
					} else if d == in2 {
						in2 = 0
					}
					continue
				}
				if d == '"' || d == '\'' || d == '`' {
					in2 = d
				} else if d == '(' || d == '[' || d == '{' {
					depth++
				} else if d == ')' || d == ']' || d == '}' {
					depth--
					if depth == 0 {
						break
					}
				}
			}
			if j >= len(s) {
				return "", fmt.Errorf("unbalanced brackets in %q", s)
			}
			inner := s[i+1 : j]
			// argument lists: rewrite each comma-separated part
			parts := splitTop(inner, ',')
			for k, p := range parts {
				if strings.TrimSpace(p) == "" {
					continue
				}
				r, err := rewriteSpec(p)
				if err != nil {
					return "", err
				}
				parts[k] = r
			}
			out.WriteByte(c)
			out.WriteString(strings.Join(parts, ", "))
			out.WriteByte(s[j])
			i = j
		default:
			out.WriteByte(c)
		}
	}
	return out.String(), nil
}
