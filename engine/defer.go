package main

import (
	"fmt"
	"go/token"

	"golang.org/x/tools/go/ssa"
)

// flushGhost executes the pending ghost assignments (delayed until the results of the anchored call have their
// source names).
func (e *Enc) flushGhost(fr *Frame, st *State) {
	if len(fr.pendingAfter) > 0 {
		pa := fr.pendingAfter
		fr.pendingAfter = nil
		for _, p := range pa {
			env := e.envAt(fr, st, nil)
			if v, ok := fr.vals[p.call]; ok {
				for i, rt := range e.tupleTypes(p.call.Type()) {
					if i < len(v.T) {
						env.vars[fmt.Sprintf("callres%d", i)] = SV{t: v.T[i], typ: rt}
					}
				}
			}
			t, err := env.evalBool(p.a.cl.expr)
			if err != nil {
				e.contractError(fr, "assert-after:"+p.a.cl.label, err)
				continue
			}
			q := e.oblige("assert", p.a.cl.label, st, t, p.pos, e.inputVals()...)
			q.Text = p.a.cl.text
		}
	}
	if len(fr.pendingGhost) == 0 {
		return
	}
	pend := fr.pendingGhost
	fr.pendingGhost = nil
	for _, gs := range pend {
		env := e.envAt(fr, st, nil)
		e.ghostAssign(fr, st, env, gs)
	}
}

type pendingAssert struct {
	a    *midAssert
	pos  token.Pos
	call *ssa.Call
}

type deferred struct {
	d     *ssa.Defer
	args  []Val
	guard *Term
}

// runDeferred executes a deferred call at function exit: through the callee's contract, or inlined when it is small.
// Deferred function literals (recover idioms) and library calls are not modelled.
func (e *Enc) runDeferred(fr *Frame, df deferred, st *State) {
	c := df.d.Call
	callee := c.StaticCallee()
	if callee == nil || !inRepo(callee) || callee.Parent() != nil {
		e.note("deferred call not modelled")
		e.modelled("deferred function literals / library calls are not modelled (recover idiom: panic => error)")
		return
	}
	// the deferred call runs only if the defer statement was reached
	s2 := st.clone()
	s2.reach = e.tb.And(st.reach, df.guard)
	if con := e.contractAtCall(callee); con != nil {
		pre := s2.clone()
		env := e.envForCall(callee, df.args, nil, &s2, &pre)
		for k, cl := range con.requires {
			t, err := env.evalBool(cl.expr)
			if err != nil {
				e.contractError(fr, "callpre:"+shortFuncName(callee), err)
				continue
			}
			q := e.oblige("callpre", "defer "+shortFuncName(callee)+"."+clauseLabel("requires", k, cl), &s2, t, df.d.Pos(), e.inputVals()...)
			q.Text = cl.text
		}
		e.havocAssigns(fr, con, env, &s2, df.args, "defer_"+callee.Name())
		var res []*Term
		for _, t := range e.tupleTypes(callee.Signature.Results()) {
			res = append(res, e.fresh("dr", t))
		}
		env2 := e.envForCall(callee, df.args, res, &s2, &pre)
		env2.calleeFresh = true
		for _, cl := range con.ensures {
			t, err := env2.evalBool(cl.expr)
			if err != nil {
				e.contractError(fr, "callpost:"+shortFuncName(callee), err)
				continue
			}
			e.assume(s2.reach, t)
		}
	} else if e.inlinable(callee) {
		_, out, sub := e.encodeFunc(callee, df.args, nil, s2, fr, nil, nil)
		fr.panics = append(fr.panics, sub.panics...)
		s2 = out
	} else {
		e.note("deferred call without contract: " + shortFuncName(callee))
		e.havocAll(&s2, "defer "+callee.Name())
	}
	// merge: the effects apply only where the defer was registered
	notReg := State{reach: e.tb.And(st.reach, e.tb.Not(df.guard)), heap: st.heap, ep: st.ep}
	merged := e.mergeStates(notReg, s2)
	merged.reach = st.reach
	*st = merged
}
