package main

import (
	"fmt"
	"go/token"
	"go/types"

	"golang.org/x/tools/go/ssa"
)

// flushGhost executes the pending ghost assignments (delayed until the results of the anchored call have their
// source names).
func (e *Enc) flushGhost(fr *Frame, st *State) {
	if len(fr.pendingAfter) > 0 {
		pa := fr.pendingAfter
		fr.pendingAfter = nil
		for _, p := range pa {
			env := e.envAt(fr, st, nil)
			if v, ok := fr.vals[p.call]; ok {
				for i, rt := range e.tupleTypes(p.call.Type()) {
					if i < len(v.T) {
						env.vars[fmt.Sprintf("callres%d", i)] = SV{t: v.T[i], typ: rt}
					}
				}
			}
			t, err := env.evalBool(p.a.cl.expr)
			if err != nil {
				e.contractError(fr, "assert-after:"+p.a.cl.label, err)
				continue
			}
			q := e.oblige("assert", p.a.cl.label, st, t, p.pos, e.inputVals()...)
			q.Text = p.a.cl.text
		}
	}
	if len(fr.pendingGhost) == 0 {
		return
	}
	pend := fr.pendingGhost
	fr.pendingGhost = nil
	for _, gs := range pend {
		env := e.envAt(fr, st, nil)
		e.ghostAssign(fr, st, env, gs)
	}
}

type pendingAssert struct {
	a    *midAssert
	pos  token.Pos
	call *ssa.Call
}

type deferred struct {
	d     *ssa.Defer
	args  []Val
	guard *Term
}

// runDeferred executes a deferred call at function exit: through the callee's contract, or inlined when it is small.
// Deferred function literals (recover idioms) and library calls are not modelled.
func (e *Enc) runDeferred(fr *Frame, df deferred, st *State) {
	c := df.d.Call
	callee := c.StaticCallee()
	if callee != nil && callee.Parent() != nil && fr.parent == nil && fr.con != nil && fr.con.opts["models-recover"] == "true" {
		// normal return: the deferred literal runs with no panic in flight
		s2 := st.clone()
		s2.reach = e.tb.And(st.reach, df.guard)
		out := e.runDeferredLiteral(fr, callee, df, s2, 1)
		skip := st.clone()
		skip.reach = e.tb.And(st.reach, e.tb.Not(df.guard))
		if e.tb.isTrue(df.guard) {
			*st = out
		} else {
			*st = e.mergeStates(skip, out)
		}
		return
	}
	if callee == nil || !inRepo(callee) || callee.Parent() != nil {
		e.note("deferred call not modelled")
		e.modelled("deferred function literals / library calls are not modelled (recover idiom: panic => error)")
		return
	}
	// the deferred call runs only if the defer statement was reached
	s2 := st.clone()
	s2.reach = e.tb.And(st.reach, df.guard)
	if con := e.contractAtCall(callee); con != nil {
		pre := s2.clone()
		env := e.envForCall(callee, df.args, nil, &s2, &pre)
		for k, cl := range con.requires {
			t, err := env.evalBool(cl.expr)
			if err != nil {
				e.contractError(fr, "callpre:"+shortFuncName(callee), err)
				continue
			}
			q := e.oblige("callpre", "defer "+shortFuncName(callee)+"."+clauseLabel("requires", k, cl), &s2, t, df.d.Pos(), e.inputVals()...)
			q.Text = cl.text
		}
		e.havocAssigns(fr, con, env, &s2, df.args, "defer_"+callee.Name())
		var res []*Term
		for _, t := range e.tupleTypes(callee.Signature.Results()) {
			res = append(res, e.fresh("dr", t))
		}
		env2 := e.envForCall(callee, df.args, res, &s2, &pre)
		env2.calleeFresh = true
		for _, cl := range con.ensures {
			t, err := env2.evalBool(cl.expr)
			if err != nil {
				e.contractError(fr, "callpost:"+shortFuncName(callee), err)
				continue
			}
			e.assume(s2.reach, t)
		}
	} else if e.inlinable(callee) {
		_, out, sub := e.encodeFunc(callee, df.args, nil, s2, fr, nil, nil)
		fr.panics = append(fr.panics, sub.panics...)
		s2 = out
	} else {
		e.note("deferred call without contract: " + shortFuncName(callee))
		e.havocAll(&s2, "defer "+callee.Name())
	}
	// merge: the effects apply only where the defer was registered
	notReg := State{reach: e.tb.And(st.reach, e.tb.Not(df.guard)), heap: st.heap, ep: st.ep}
	merged := e.mergeStates(notReg, s2)
	merged.reach = st.reach
	*st = merged
}

// runDeferredLiteral executes a deferred function literal in state st; mode says what recover() returns in it.
func (e *Enc) runDeferredLiteral(fr *Frame, lit *ssa.Function, df deferred, st State, mode int) State {
	var binds []Val
	if mc, ok := df.d.Call.Value.(*ssa.MakeClosure); ok {
		for _, b := range mc.Bindings {
			binds = append(binds, e.val(fr, b))
		}
	}
	savedCtx, savedStack, savedMode := e.ctx, e.stack, e.recoverMode
	e.recoverMode = mode
	_, out, sub := e.encodeFunc(lit, df.args, binds, st, fr, nil, nil)
	e.ctx, e.stack, e.recoverMode = savedCtx, savedStack, savedMode
	fr.panics = append(fr.panics, sub.panics...)
	e.modelled("deferred function literals of a unit with `option models-recover` run at every exit: with recover() == nil at a return, with recover() != nil after a panic raised anywhere in the body (whole heap and all captured variables unknown at that point)")
	return out
}

// recoverPath adds the exit of the function through its recover block: a panic was raised somewhere in the body (or in
// something it calls) after the defer statements were reached, the deferred literals ran with recover() != nil and the
// function returns the current values of its named results. The state at the panic is unknown: everything that is not
// an unescaped local object is havocked; variables captured by the deferred literal are cells that escaped into it.
func (e *Enc) recoverPath(fr *Frame, in State) {
	tb := e.tb
	st := in.clone()
	e.havocAll(&st, "state at a recovered panic")
	st.reach = tb.Fresh("panicked", "Bool")
	// variables assigned exactly once, at entry before anything can panic (parameters spilled into cells because a
	// literal captures them), still hold that value
	for a, sto := range assignedOnceAtEntry(fr.fn) {
		av, ok := fr.vals[a]
		if !ok {
			continue
		}
		elem := a.Type().Underlying().(*types.Pointer).Elem()
		e.rootWrite(&st, &Addr{ref: av.t(), root: elem}, e.val(fr, sto.Val).t())
	}
	for i := len(fr.defers) - 1; i >= 0; i-- {
		df := fr.defers[i]
		st.reach = tb.And(st.reach, df.guard)
		lit := df.d.Call.StaticCallee()
		if lit == nil || lit.Parent() == nil {
			e.note("deferred call not modelled on the panic path")
			e.havocAll(&st, "deferred call on the panic path")
			continue
		}
		st = e.runDeferredLiteral(fr, lit, df, st, 2)
	}
	b := fr.fn.Recover
	fr.cur = b
	for _, in := range b.Instrs {
		e.instr(fr, b, in, &st)
	}
}

// assignedOnceAtEntry: the variables (cells) of fn that are stored to exactly once - in the entry block before any call,
// defer or other instruction that can panic - and whose address is otherwise only loaded from, in fn and in the
// literals that capture it.
func assignedOnceAtEntry(fn *ssa.Function) map[*ssa.Alloc]*ssa.Store {
	out := map[*ssa.Alloc]*ssa.Store{}
	if len(fn.Blocks) == 0 {
		return out
	}
	early := map[ssa.Instruction]bool{}
	for _, in := range fn.Blocks[0].Instrs {
		switch in.(type) {
		case *ssa.Alloc, *ssa.Store, *ssa.DebugRef, *ssa.MakeClosure:
			early[in] = true
			continue
		}
		break
	}
	var onlyLoaded func(v ssa.Value, depth int) bool
	onlyLoaded = func(v ssa.Value, depth int) bool {
		if v.Referrers() == nil || depth > 3 {
			return false
		}
		for _, r := range *v.Referrers() {
			switch u := r.(type) {
			case *ssa.UnOp:
				if u.Op != token.MUL {
					return false
				}
			case *ssa.DebugRef:
			case *ssa.MakeClosure:
				f := u.Fn.(*ssa.Function)
				for i, b := range u.Bindings {
					if b == v && (i >= len(f.FreeVars) || !onlyLoaded(f.FreeVars[i], depth+1)) {
						return false
					}
				}
			default:
				return false
			}
		}
		return true
	}
	for _, in := range fn.Blocks[0].Instrs {
		a, ok := in.(*ssa.Alloc)
		if !ok || a.Referrers() == nil {
			continue
		}
		var store *ssa.Store
		good := true
		for _, r := range *a.Referrers() {
			switch u := r.(type) {
			case *ssa.Store:
				if u.Addr != a || u.Val == ssa.Value(a) || store != nil || !early[u] {
					good = false
				}
				store = u
			case *ssa.UnOp:
				if u.Op != token.MUL {
					good = false
				}
			case *ssa.DebugRef:
			case *ssa.MakeClosure:
				f := u.Fn.(*ssa.Function)
				for i, b := range u.Bindings {
					if b == ssa.Value(a) && (i >= len(f.FreeVars) || !onlyLoaded(f.FreeVars[i], 0)) {
						good = false
					}
				}
			default:
				good = false
			}
		}
		if good && store != nil {
			out[a] = store
		}
	}
	return out
}
