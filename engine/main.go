package main

import (
	"encoding/json"
	"flag"
	"fmt"
	"go/types"
	"os"
	"path/filepath"
	"sort"
	"strconv"
	"strings"
	"sync"
	"time"

	"golang.org/x/tools/go/ssa"
)

type runOpts struct {
	solvers   []string
	timeoutMs int
	seed      int
	agree     bool
	dumpDir   string
	debug     bool
	sweep     bool
	tier      string
	verifDir  string
	repo      string
	jobs      int
	verbose   bool
	claimed   map[string]bool // obligations in the ledger (nil: treat all as claimed)
	outDir    string          // evidence/ and replays/ are written here (default: verifDir)
}

func defaultOpts() runOpts {
	o := runOpts{solvers: []string{"z3-new", "z3", "cvc5"}, timeoutMs: 10000, seed: 0, tier: "quick", jobs: 16}
	o.verifDir = os.Getenv("VERIF_DIR")
	if o.verifDir == "" {
		exe, _ := os.Executable()
		o.verifDir = filepath.Dir(filepath.Dir(exe))
		if _, err := os.Stat(filepath.Join(o.verifDir, "MANIFEST.json")); err != nil {
			o.verifDir = "/verif"
		}
	}
	o.outDir = os.Getenv("VERIF_OUT")
	if o.outDir == "" {
		o.outDir = o.verifDir
	}
	o.repo = os.Getenv("VERIF_REPO")
	if o.repo == "" {
		o.repo = "/repo"
	}
	if s := os.Getenv("VERIF_SEED"); s != "" {
		if n, err := strconv.Atoi(s); err == nil {
			o.seed = n
		}
	}
	if t := os.Getenv("VERIF_TIER"); t == "quick" || t == "thorough" {
		o.tier = t
	}
	return o
}

func main() {
	if len(os.Args) < 2 {
		fmt.Fprintln(os.Stderr, "usage: govc check <ID> [--tier quick|thorough] | verify <pattern> | ledger <ID> | list | replay <file> | selftest")
		os.Exit(2)
	}
	cmd := os.Args[1]
	opt := defaultOpts()
	fs := flag.NewFlagSet(cmd, flag.ExitOnError)
	fs.StringVar(&opt.tier, "tier", opt.tier, "quick|thorough")
	fs.StringVar(&opt.repo, "repo", opt.repo, "repository root")
	fs.StringVar(&opt.dumpDir, "dump", "", "directory for SMT scripts")
	fs.BoolVar(&opt.debug, "debug", false, "panic on engine errors")
	fs.BoolVar(&opt.verbose, "v", false, "verbose")
	fs.BoolVar(&opt.sweep, "sweep", false, "generate safety obligations everywhere")
	fs.IntVar(&opt.timeoutMs, "timeout", opt.timeoutMs, "per-query timeout (ms)")
	fs.IntVar(&opt.jobs, "j", opt.jobs, "parallel units")
	var pos []string
	args := os.Args[2:]
	for len(args) > 0 {
		if strings.HasPrefix(args[0], "-") {
			break
		}
		pos = append(pos, args[0])
		args = args[1:]
	}
	_ = fs.Parse(args)
	pos = append(pos, fs.Args()...)
	if opt.tier == "thorough" {
		opt.agree = true
		if opt.timeoutMs == 10000 {
			opt.timeoutMs = 30000
		}
	}
	switch cmd {
	case "check":
		if len(pos) != 1 {
			fmt.Fprintln(os.Stderr, "check needs a property id")
			os.Exit(2)
		}
		os.Exit(runCheck(pos[0], opt, false))
	case "ledger":
		if len(pos) != 1 {
			fmt.Fprintln(os.Stderr, "ledger needs a property id")
			os.Exit(2)
		}
		os.Exit(runCheck(pos[0], opt, true))
	case "verify":
		os.Exit(runVerify(pos, opt))
	case "list":
		os.Exit(runList(opt))
	case "ssa":
		L := mustLoad(opt)
		for f := range L.allFuncs {
			for _, p := range pos {
				if strings.Contains(f.String(), p) {
					f.WriteTo(os.Stdout)
				}
			}
		}
		os.Exit(0)
	case "tables":
		L := mustLoad(opt)
		for _, t := range L.extractTables() {
			fmt.Printf("%-70s args=%d fn=%s\n", t.unitName(), t.args, t.fn.Name())
		}
		os.Exit(0)
	case "replay":
		if len(pos) != 1 {
			fmt.Fprintln(os.Stderr, "replay needs a file")
			os.Exit(2)
		}
		os.Exit(runReplayFile(pos[0], opt))
	default:
		fmt.Fprintln(os.Stderr, "unknown command", cmd)
		os.Exit(2)
	}
}

func mustLoad(opt runOpts) *Loaded {
	L, err := Load(opt.repo)
	if err != nil {
		fmt.Fprintln(os.Stderr, "govc: cannot load repository:", err)
		os.Exit(2)
	}
	L.cfg.nilChecks = false
	if len(L.contracts.errors) > 0 {
		for _, e := range L.contracts.errors {
			fmt.Fprintln(os.Stderr, "govc: contract syntax:", e)
		}
		os.Exit(2)
	}
	return L
}

// unitJob is one verification unit to run.
type unitJob struct {
	name string
	run  func() *UnitResult
}

func runJobs(jobs []unitJob, n int) []*UnitResult {
	res := make([]*UnitResult, len(jobs))
	var wg sync.WaitGroup
	sem := make(chan struct{}, n)
	for i := range jobs {
		wg.Add(1)
		go func(i int) {
			defer wg.Done()
			sem <- struct{}{}
			defer func() { <-sem }()
			res[i] = jobs[i].run()
		}(i)
	}
	wg.Wait()
	return res
}

func hasProp(ps []string, id string) bool {
	for _, p := range ps {
		if p == id {
			return true
		}
	}
	return false
}

func contractMentions(c *FuncContract, id string) bool {
	if hasProp(c.props, id) || hasProp(c.safetyProps, id) {
		return true
	}
	for _, cl := range c.requires {
		if hasProp(cl.props, id) {
			return true
		}
	}
	for _, cl := range c.ensures {
		if hasProp(cl.props, id) {
			return true
		}
	}
	for _, a := range c.asserts {
		if hasProp(a.cl.props, id) {
			return true
		}
	}
	for _, a := range c.assertsAfter {
		if hasProp(a.cl.props, id) {
			return true
		}
	}
	for _, cls := range c.invs {
		for _, cl := range cls {
			if hasProp(cl.props, id) {
				return true
			}
		}
	}
	for _, cb := range c.callbacks {
		for _, cl := range cb.invs {
			if hasProp(cl.props, id) {
				return true
			}
		}
	}
	return false
}

// bodyBlocksMention: a `closure <func> anchor … option body-only` block of the function (annotations of a literal that is
// verified at its creation site, inside the function's unit) carries a clause of the property.
func bodyBlocksMention(L *Loaded, c *FuncContract, id string) bool {
	for _, b := range L.contracts.order {
		if b.kind != "closure" || b.pkg != c.pkg || b.key != c.key {
			continue
		}
		if _, bodyOnly := b.opts["body-only"]; bodyOnly && contractMentions(b, id) {
			return true
		}
	}
	return false
}

// suffixMentions: the unit generates obligations that an `obligation-property` directive attributes to id
// (currently: units with function literals verified at their creation site).
func suffixMentions(L *Loaded, c *FuncContract, id string) bool {
	if len(c.closureSpecs) == 0 {
		return false
	}
	for suffix, ps := range L.contracts.suffixProps {
		if strings.HasPrefix(suffix, ".captures-") && hasProp(ps, id) {
			return true
		}
	}
	return false
}

// jobsFor collects the units that carry obligations of a property ("" = all).
func jobsFor(L *Loaded, id string, opt runOpts) ([]unitJob, []*UnitResult) {
	L.extractTables() // computed once, before the units run in parallel
	var jobs []unitJob
	var missing []*UnitResult
	for _, c := range L.contracts.order {
		if c.kind != "func" || c.trusted || c.opts["impl-only"] == "true" {
			continue
		}
		if id != "" && !contractMentions(c, id) && !suffixMentions(L, c, id) && !bodyBlocksMention(L, c, id) {
			continue
		}
		fns := L.funcsFor(c)
		if len(fns) == 0 {
			missing = append(missing, missingTarget(c))
			continue
		}
		for _, fn := range fns {
			fn, c := fn, c
			jobs = append(jobs, unitJob{name: shortFuncName(fn), run: func() *UnitResult { return VerifyFunc(L, fn, c, opt) }})
		}
	}
	// function literals under their own contract, found by a source anchor inside the enclosing function
	for _, c := range L.contracts.order {
		if c.kind != "closure" || (id != "" && !contractMentions(c, id)) {
			continue
		}
		if _, bodyOnly := c.opts["body-only"]; bodyOnly {
			continue // loop invariants for a literal verified at its creation site (closure-spec)
		}
		var hits []*ssa.Function
		var walk func(f *ssa.Function)
		walk = func(f *ssa.Function) {
			for _, a := range f.AnonFuncs {
				if a.Synthetic != "" { // the body of a range-over-func loop is part of the literal around it
					walk(a)
					continue
				}
				if L.anchorMatches(a, c.anchor) {
					// prefer the innermost literal containing the anchor
					inner := false
					var deeper func(g *ssa.Function)
					deeper = func(g *ssa.Function) {
						for _, aa := range g.AnonFuncs {
							if aa.Synthetic != "" {
								deeper(aa)
							} else if L.anchorMatches(aa, c.anchor) {
								inner = true
							}
						}
					}
					deeper(a)
					if !inner {
						hits = append(hits, a)
					}
				}
				walk(a)
			}
		}
		for _, parent := range L.byKey[c.pkg+"::"+c.key] {
			walk(parent)
		}
		if len(hits) == 0 {
			missing = append(missing, missingTarget(c))
			continue
		}
		for _, fn := range hits {
			fn, c := fn, c
			tab := c.key
			if ta := topLevel(fn).TypeArgs(); len(ta) > 0 {
				var as []string
				for _, a := range ta {
					as = append(as, types.TypeString(a, func(p *types.Package) string { return p.Name() }))
				}
				tab += "[" + strings.Join(as, ",") + "]"
			}
			t := &tableEntry{kind: "closure", table: tab, name: "@" + c.anchor, fn: fn, site: fn}
			jobs = append(jobs, unitJob{name: t.unitName(), run: func() *UnitResult { return VerifyEntry(L, t, c, c, opt) }})
		}
	}
	// registered function literals (operator tables, static functions, method tables)
	for _, c := range L.contracts.order {
		if c.kind != "table" {
			continue
		}
		tableHasID := id == "" || contractMentions(c, id)
		found := false
		for _, t := range L.extractTables() {
			if t.table != c.key || funcPkgPath(t.site) != c.pkg {
				continue
			}
			if ks, ok := c.opts["kinds"]; ok && !strings.Contains(","+ks+",", ","+t.kind+",") {
				continue
			}
			found = true
			t, c := t, c
			own := L.contracts.funcs[c.pkg+"::entry:"+c.key+"$"+entrySuffix(t)]
			if !tableHasID && (own == nil || !contractMentions(own, id)) {
				continue
			}
			jobs = append(jobs, unitJob{name: t.unitName(), run: func() *UnitResult { return VerifyEntry(L, t, c, own, opt) }})
		}
		if !found && tableHasID {
			missing = append(missing, missingTarget(c))
		}
	}
	// implementations of interface methods under contract (behavioural subtyping)
	for _, c := range L.contracts.order {
		if c.kind != "iface" || c.trusted || (id != "" && !contractMentions(c, id)) || c.opts["no-impl-check"] == "true" {
			continue
		}
		dot := strings.Index(c.key, ".")
		if dot < 0 {
			continue
		}
		named, it := L.ifaceByKey(c.pkg, c.key[:dot])
		if it == nil {
			continue
		}
		mname := c.key[dot+1:]
		var msig *types.Signature
		for i := 0; i < it.NumMethods(); i++ {
			if it.Method(i).Name() == mname {
				msig = it.Method(i).Type().(*types.Signature)
			}
		}
		if msig == nil {
			missing = append(missing, missingTarget(c))
			continue
		}
		var fns []*ssa.Function
		for f := range L.allFuncs {
			if f.Blocks == nil || f.Parent() != nil || f.Signature.Recv() == nil || baseName(f) != mname || !inRepo(f) {
				continue
			}
			if f.Synthetic != "" && f.Origin() == nil {
				continue
			}
			rt := f.Signature.Recv().Type()
			if _, isIface := rt.Underlying().(*types.Interface); isIface {
				continue
			}
			if hasTypeParam(rt) {
				continue
			}
			if types.Implements(rt, it) {
				fns = append(fns, f)
			} else if named.TypeParams().Len() == 1 && named.TypeArgs().Len() == 0 {
				// generic interface: try the type arguments the program instantiates generics with
				for _, ta := range L.instTypeArgs() {
					inst, err := types.Instantiate(nil, named, []types.Type{ta}, true)
					if err != nil {
						continue
					}
					if ii, ok := inst.Underlying().(*types.Interface); ok && types.Implements(rt, ii) {
						fns = append(fns, f)
						break
					}
				}
			}
		}
		sort.Slice(fns, func(i, j int) bool { return fns[i].String() < fns[j].String() })
		for _, fn := range fns {
			fn := fn
			cc := *c
			if fc := L.contractOf(fn); fc != nil {
				// the implementation's own block supplies the proof annotations (loop invariants, function literals,
				// assertions) and may add preconditions; what is proved is the contract of the interface method
				cc = *fc
				cc.props, cc.safetyProps = c.props, c.safetyProps
				cc.requires = append(append([]clause{}, c.requires...), fc.requires...)
				cc.ensures = c.ensures
				cc.assigns, cc.assignsNone = c.assigns, c.assignsNone
				cc.opts = map[string]string{}
				for k, v := range fc.opts {
					cc.opts[k] = v
				}
				for k, v := range c.opts {
					cc.opts[k] = v
				}
				fc.used = true
			}
			if c.opts["impl-check"] == "frame" {
				// the postconditions define ghost functions by what the implementations return (assumed: every
				// implementation is a function of its receiver); what is checked per implementation is the frame
				cc.ensures = nil
			}
			cc.implOf = msig
			cc.implIface = named
			cc.kind = "func"
			jobs = append(jobs, unitJob{name: shortFuncName(fn) + "$impl", run: func() *UnitResult { return VerifyFunc(L, fn, &cc, opt) }})
		}
	}
	jobs = append(jobs, extraJobs(L, id, opt)...)
	return jobs, missing
}

func missingTarget(c *FuncContract) *UnitResult {
	name := strings.TrimPrefix(strings.TrimPrefix(c.pkg, modPath), "/")
	if name == "" {
		name = "parser2"
	}
	name += "." + c.key
	q := &Query{Name: name + "#contract-target", Kind: "contract-target", Text: "function under contract not found in the repository (" + c.pos + ")"}
	ur := &UnitResult{Name: name, Func: name, Queries: []*Query{q}, Results: []QResult{{Status: "error", Detail: q.Text}}, Props: map[string][]string{q.Name: append(append([]string{}, c.props...), c.safetyProps...)}}
	return ur
}

func runVerify(patterns []string, opt runOpts) int {
	L := mustLoad(opt)
	jobs, missing := jobsFor(L, "", opt)
	var sel []unitJob
	for _, j := range jobs {
		ok := len(patterns) == 0
		for _, p := range patterns {
			if strings.Contains(j.name, p) {
				ok = true
			}
		}
		if ok {
			sel = append(sel, j)
		}
	}
	results := runJobs(sel, opt.jobs)
	results = append(results, missing...)
	bad := 0
	for _, ur := range results {
		printUnit(ur, true)
		for i, r := range ur.Results {
			q := ur.Queries[i]
			if (q.Cover && !coverOK(r.Status)) || (!q.Cover && r.Status != "unsat") {
				bad++
			}
		}
	}
	if bad > 0 {
		return 1
	}
	return 0
}

var verboseModels = os.Getenv("GOVC_MODELS") != ""

func printUnit(ur *UnitResult, verbose bool) {
	fmt.Printf("== %s  (%d obligations, encode %.2fs, solve %.2fs)\n", ur.Name, len(ur.Queries), ur.EncodeS, ur.SolveS)
	if ur.Err != "" {
		fmt.Printf("   ENGINE ERROR: %s\n", ur.Err)
	}
	for i, q := range ur.Queries {
		if i >= len(ur.Results) {
			break
		}
		r := ur.Results[i]
		ok := (q.Cover && coverOK(r.Status)) || (!q.Cover && r.Status == "unsat")
		mark := "ok  "
		if !ok {
			mark = "FAIL"
		}
		if !verbose && ok {
			continue
		}
		fmt.Printf("   %s %-7s %-6s %s  %s\n", mark, r.Status, r.Solver, q.Name, q.Pos)
		if !ok {
			if q.Text != "" {
				fmt.Printf("        clause: %s\n", q.Text)
			}
			if len(r.Model) > 0 && verboseModels {
				var ks []string
				for k := range r.Model {
					ks = append(ks, k)
				}
				sort.Strings(ks)
				for _, k := range ks {
					fmt.Printf("        %s = %s\n", k, r.Model[k])
				}
			}
			if r.Detail != "" {
				fmt.Printf("        %s\n", strings.ReplaceAll(r.Detail, "\n", " | "))
			}
		}
	}
	if verbose {
		var ns []string
		for k, v := range ur.Notes {
			ns = append(ns, fmt.Sprintf("%dx %s", v, k))
		}
		sort.Strings(ns)
		for _, n := range ns {
			fmt.Printf("   note: %s\n", n)
		}
	}
}

func runList(opt runOpts) int {
	L := mustLoad(opt)
	for _, c := range L.contracts.order {
		fns := L.funcsFor(c)
		fmt.Printf("%-8s %-50s props=%v safety=%v targets=%d req=%d ens=%d\n", c.kind, c.pkg[len(modPath):]+"::"+c.key, c.props, c.safetyProps, len(fns), len(c.requires), len(c.ensures))
	}
	for _, l := range L.contracts.lemmas {
		fmt.Printf("lemma    %-50s props=%v\n", l.name, l.props)
	}
	return 0
}

// ---------- property check ----------

type Ledger struct {
	Property string   `json:"property"`
	Claimed  []string `json:"claimed"`
	Note     string   `json:"note,omitempty"`
}

type KnownFinding struct {
	Property   string `json:"property,omitempty"`
	Obligation string `json:"obligation,omitempty"`
	Witness    string `json:"witness,omitempty"`
	What       string `json:"what,omitempty"`
	Fixed      string `json:"fixed,omitempty"` // "property=<id> <commit> <what failed>"
}

type KnownFindings struct {
	Findings []KnownFinding `json:"findings"`
}

func loadLedger(opt runOpts, id string) *Ledger {
	b, err := os.ReadFile(filepath.Join(opt.verifDir, "ledger", id+".json"))
	if err != nil {
		return nil
	}
	var l Ledger
	if json.Unmarshal(b, &l) != nil {
		return nil
	}
	return &l
}

func loadKnown(opt runOpts) *KnownFindings {
	var k KnownFindings
	b, err := os.ReadFile(filepath.Join(opt.verifDir, "known_findings.json"))
	if err == nil {
		_ = json.Unmarshal(b, &k)
	}
	return &k
}

type oblOutcome struct {
	unit   *UnitResult
	q      *Query
	r      QResult
	ok     bool
	status string
}

func runCheck(id string, opt runOpts, writeLedger bool) int {
	t0 := time.Now()
	L := mustLoad(opt)
	if !writeLedger {
		if l := loadLedger(opt, id); l != nil {
			opt.claimed = map[string]bool{}
			for _, n := range l.Claimed {
				opt.claimed[n] = true
			}
		}
	}
	jobs, missing := jobsFor(L, id, opt)
	// a derived property also owns the obligations of its base properties on the named instantiations
	counts := func(props []string, unit string) bool { return hasProp(props, id) }
	if d, ok := L.contracts.derived[id]; ok {
		onInst := func(unit string) bool {
			for _, t := range d.insts {
				if strings.Contains(unit, "["+t+"]") {
					return true
				}
			}
			return false
		}
		seen := map[string]bool{}
		for _, j := range jobs {
			seen[j.name] = true
		}
		for _, b := range d.bases {
			bj, bm := jobsFor(L, b, opt)
			for _, j := range bj {
				if !seen[j.name] && onInst(j.name) {
					seen[j.name] = true
					jobs = append(jobs, j)
				}
			}
			for _, ur := range bm {
				if onInst(ur.Name) {
					missing = append(missing, ur)
				}
			}
		}
		counts = func(props []string, unit string) bool {
			if hasProp(props, id) {
				return true
			}
			if !onInst(unit) {
				return false
			}
			for _, b := range d.bases {
				if hasProp(props, b) {
					return true
				}
			}
			return false
		}
	}
	results := append(runJobs(jobs, opt.jobs), missing...)
	// engine errors are not about the tree
	for _, ur := range results {
		if ur.Err != "" {
			fmt.Fprintf(os.Stderr, "govc: engine error in unit %s: %s\n", ur.Name, ur.Err)
		}
	}
	outcomes := map[string]*oblOutcome{}
	var order []string
	for _, ur := range results {
		for i, q := range ur.Queries {
			if !counts(ur.Props[q.Name], ur.Name) {
				continue
			}
			var r QResult
			if i < len(ur.Results) {
				r = ur.Results[i]
			} else {
				r = QResult{Status: "error", Detail: ur.Err}
			}
			ok := (q.Cover && coverOK(r.Status)) || (!q.Cover && r.Status == "unsat")
			if _, dup := outcomes[q.Name]; dup {
				continue
			}
			outcomes[q.Name] = &oblOutcome{unit: ur, q: q, r: r, ok: ok, status: r.Status}
			order = append(order, q.Name)
		}
	}
	sort.Strings(order)
	if writeLedger {
		var claimed []string
		for _, n := range order {
			if outcomes[n].ok {
				claimed = append(claimed, n)
			} else {
				fmt.Printf("not claimed: %s (%s)\n", n, outcomes[n].status)
			}
		}
		l := Ledger{Property: id, Claimed: claimed}
		b, _ := json.MarshalIndent(l, "", " ")
		_ = os.MkdirAll(filepath.Join(opt.verifDir, "ledger"), 0o755)
		if err := os.WriteFile(filepath.Join(opt.verifDir, "ledger", id+".json"), append(b, '\n'), 0o644); err != nil {
			fmt.Fprintln(os.Stderr, err)
			return 2
		}
		fmt.Printf("ledger %s: %d claimed of %d generated\n", id, len(claimed), len(order))
		return 0
	}
	return report(id, opt, L, results, outcomes, order, time.Since(t0).Seconds())
}

func funcOfObl(name string) string {
	if i := strings.Index(name, "#"); i >= 0 {
		return name[:i]
	}
	return name
}

var _ = ssa.NaiveForm

func entrySuffix(t *tableEntry) string {
	n := t.unitName()
	return n[strings.Index(n, "$")+1:]
}

func hasTypeParam(t types.Type) bool {
	switch u := t.(type) {
	case *types.TypeParam:
		return true
	case *types.Pointer:
		return hasTypeParam(u.Elem())
	case *types.Named:
		if ta := u.TypeArgs(); ta != nil {
			for i := 0; i < ta.Len(); i++ {
				if hasTypeParam(ta.At(i)) {
					return true
				}
			}
		}
		if tp := u.TypeParams(); tp != nil && tp.Len() > 0 && u.TypeArgs() == nil {
			return true
		}
	case *types.Slice:
		return hasTypeParam(u.Elem())
	}
	return false
}
