package main

import (
	"go/types"
	"strings"
	"sync"

	"golang.org/x/tools/go/ssa"
)

// Derived contracts (DESIGN 2.6a): for a function of the repository that takes a funcGen.Stack by value and has no
// hand-written contract, the number of stack slots it reads unconditionally is computed from its SSA:
// the largest constant k in s.Get(k) on the parameter, and, through helpers that index with one of their own
// parameters (ToFunc(name, st, n, args), ToFloat(name, st, n)), the constant passed for that parameter.
// A caller must then establish  st.size >= need.  Derived preconditions only ever add obligations.

type stackNeed struct {
	konst    int // slots needed regardless of arguments
	viaParam int // index of an int parameter n such that n+1 slots are needed (-1: none)
}

func isStackType(t types.Type) bool {
	n, ok := t.(*types.Named)
	return ok && n.Obj().Name() == "Stack" && n.Obj().Pkg() != nil && strings.HasSuffix(n.Obj().Pkg().Path(), "/funcGen")
}

var stackNeedMu sync.Mutex

func (L *Loaded) stackNeedOf(fn *ssa.Function, paramIdx int, depth int) stackNeed {
	if depth == 0 {
		stackNeedMu.Lock()
		defer stackNeedMu.Unlock()
	}
	key := stackNeedKey{fn, paramIdx}
	if r, ok := L.stackNeeds[key]; ok {
		return r
	}
	res := stackNeed{viaParam: -1}
	if L.stackNeeds == nil {
		L.stackNeeds = map[stackNeedKey]stackNeed{}
	}
	L.stackNeeds[key] = res // recursion guard
	if fn.Blocks == nil || depth > 4 || paramIdx >= len(fn.Params) {
		return res
	}
	p := fn.Params[paramIdx]
	// only accesses in blocks that dominate every return are unconditional; keep it simple: the entry block and
	// blocks that dominate all return blocks
	var rets []*ssa.BasicBlock
	for _, b := range fn.Blocks {
		if len(b.Instrs) > 0 {
			if _, ok := b.Instrs[len(b.Instrs)-1].(*ssa.Return); ok {
				rets = append(rets, b)
			}
		}
	}
	unconditional := func(b *ssa.BasicBlock) bool {
		if b.Index == 0 {
			return true
		}
		// a block is counted if it dominates all *successful* paths is too hard to know; count blocks dominating
		// at least one return and reached without passing a Size() comparison: approximated by entry-dominated chains
		// of error-check branches (`if err != nil { return }`), i.e. blocks that dominate the last return block
		if len(rets) == 0 {
			return false
		}
		return b.Dominates(rets[len(rets)-1])
	}
	for _, b := range fn.Blocks {
		if !unconditional(b) {
			continue
		}
		for _, in := range b.Instrs {
			call, ok := in.(*ssa.Call)
			if !ok {
				continue
			}
			c := call.Common()
			callee := c.StaticCallee()
			if callee == nil || c.IsInvoke() {
				continue
			}
			for j, a := range c.Args {
				if a != ssa.Value(p) {
					continue
				}
				if baseName(callee) == "Get" && callee.Signature.Recv() != nil && isStackType(callee.Signature.Recv().Type()) && j == 0 && len(c.Args) == 2 {
					if k, ok := constInt(c.Args[1]); ok {
						if k+1 > res.konst {
							res.konst = k + 1
						}
					} else if pi := paramIndexOf(fn, c.Args[1]); pi >= 0 {
						res.viaParam = pi
					}
					continue
				}
				if !inRepo(callee) {
					continue
				}
				sub := L.stackNeedOf(callee, j, depth+1)
				if sub.konst > res.konst {
					res.konst = sub.konst
				}
				if sub.viaParam >= 0 && sub.viaParam < len(c.Args) {
					if k, ok := constInt(c.Args[sub.viaParam]); ok {
						if k+1 > res.konst {
							res.konst = k + 1
						}
					} else if pi := paramIndexOf(fn, c.Args[sub.viaParam]); pi >= 0 {
						res.viaParam = pi
					}
				}
			}
		}
	}
	L.stackNeeds[key] = res
	return res
}

type stackNeedKey struct {
	fn  *ssa.Function
	idx int
}

func paramIndexOf(fn *ssa.Function, v ssa.Value) int {
	for i, p := range fn.Params {
		if ssa.Value(p) == v {
			return i
		}
	}
	return -1
}

// derivedStackNeed emits, at a call of a repository function without contract, the obligation that every stack
// argument has the slots the callee reads.
func (e *Enc) derivedStackNeed(fr *Frame, x *ssa.Call, callee *ssa.Function, args []Val, st *State) {
	if !e.safety {
		return
	}
	tb := e.tb
	for j, p := range callee.Params {
		if !isStackType(p.Type()) || j >= len(args) {
			continue
		}
		need := e.L.stackNeedOf(callee, j, 0)
		k := need.konst
		if need.viaParam >= 0 && need.viaParam < len(x.Call.Args) {
			if c, ok := constInt(x.Call.Args[need.viaParam]); ok && c+1 > k {
				k = c + 1
			}
		}
		if k <= 0 {
			continue
		}
		s, u := e.structOf(p.Type())
		for i := 0; i < u.NumFields(); i++ {
			if u.Field(i).Name() == "size" {
				size := tb.Field(s, i, args[j].t())
				q := e.oblige("stackneed", shortFuncName(callee), st, tb.Ge(size, tb.Int(int64(k))), x.Pos(), e.inputVals()...)
				q.Text = "derived contract: the callee reads stack slot " + itoa(k-1) + " unconditionally"
			}
		}
	}
}
