package main

import (
	"fmt"
	"go/ast"
	"go/constant"
	"go/parser"
	"go/token"
	"go/types"
	"math/big"
	"strconv"
	"strings"

	"golang.org/x/tools/go/ssa"
)

// SV is a specification value: a term with its Go type (nil type = untyped constant) and, for pointers,
// possibly a statically known address.
type SV struct {
	t       *Term
	typ     types.Type
	addr    *Addr
	untyped bool
	pkg     *types.Package // package reference (for pkg.Name selectors)
	tname   types.Type     // a type used as a value (conversion target / typeis argument)
	all     bool           // the [*] index marker
	wlog    bool           // the emission log of a writer (assigns location)
	pointee bool           // addr is the target this pointer value designates (not the location the value is stored at)
	greg    *regInfo       // ghost variable location: register
	gidx    *Term          // ghost variable location: index
}

type evalEnv struct {
	e           *Enc
	pkg         *types.Package
	st          *State
	old         *State
	vars        map[string]SV
	oldVars     map[string]SV
	calleeFresh bool // evaluating a callee's postcondition at a call site: fresh(x) means allocated by the callee
	bound       map[string]SV
	fn          *ssa.Function
	depth       int
	self        SV                    // for type contracts: the function value being called
	typeVars    map[string]types.Type // type parameters of a generic contract target bound to the instantiation
}

func (env *evalEnv) clone() *evalEnv {
	n := *env
	n.bound = map[string]SV{}
	for k, v := range env.bound {
		n.bound[k] = v
	}
	return &n
}

type evalError struct{ msg string }

func (e evalError) Error() string { return e.msg }

func (env *evalEnv) fail(format string, a ...any) { panic(evalError{fmt.Sprintf(format, a...)}) }

func (env *evalEnv) evalBool(x ast.Expr) (t *Term, err error) {
	defer func() {
		if r := recover(); r != nil {
			if ee, ok := r.(evalError); ok {
				err = ee
				return
			}
			panic(r)
		}
	}()
	v := env.eval(x)
	if v.t == nil || v.t.sort != "Bool" {
		env.fail("clause is not boolean: %s", exprString(x))
	}
	return v.t, nil
}

func (env *evalEnv) evalAny(x ast.Expr) (v SV, err error) {
	defer func() {
		if r := recover(); r != nil {
			if ee, ok := r.(evalError); ok {
				err = ee
				return
			}
			panic(r)
		}
	}()
	return env.eval(x), nil
}

func exprString(x ast.Expr) string { return types.ExprString(x) }

func (env *evalEnv) tb() *TB { return env.e.tb }

// coerce makes two operands compatible (untyped constants adopt the other side's sort).
func (env *evalEnv) coerce(a, b SV) (SV, SV) {
	tb := env.tb()
	if a.t.sort == b.t.sort {
		if a.untyped && !b.untyped {
			a.typ = b.typ
		} else if b.untyped && !a.untyped {
			b.typ = a.typ
		}
		return a, b
	}
	if a.t.sort == "Int" && b.t.sort == "Real" && a.untyped {
		return SV{t: tb.ToReal(a.t), typ: b.typ}, b
	}
	if b.t.sort == "Int" && a.t.sort == "Real" && b.untyped {
		return a, SV{t: tb.ToReal(b.t), typ: a.typ}
	}
	// nil against pointer/slice/iface/func
	if a.untyped && a.t.op == "#i0" && a.typ == nil {
		return SV{t: env.e.zero(b.typ), typ: b.typ}, b
	}
	if b.untyped && b.t.op == "#i0" && b.typ == nil {
		return a, SV{t: env.e.zero(a.typ), typ: a.typ}
	}
	env.fail("operands have different sorts: %s vs %s", a.t.sort, b.t.sort)
	return a, b
}

func (env *evalEnv) eval(x ast.Expr) SV {
	e := env.e
	tb := e.tb
	switch v := x.(type) {
	case *ast.ParenExpr:
		return env.eval(v.X)
	case *ast.BasicLit:
		switch v.Kind {
		case token.INT:
			n, ok := new(big.Int).SetString(strings.ReplaceAll(v.Value, "_", ""), 0)
			if !ok {
				env.fail("bad int literal %s", v.Value)
			}
			return SV{t: tb.BigInt(n), typ: types.Typ[types.Int], untyped: true}
		case token.FLOAT:
			c := constant.MakeFromLiteral(v.Value, token.FLOAT, 0)
			return SV{t: tb.Real(ratOf(c)), typ: types.Typ[types.Float64], untyped: true}
		case token.STRING:
			s, _ := strconv.Unquote(v.Value)
			return SV{t: tb.StrLit(s), typ: types.Typ[types.String], untyped: true}
		case token.CHAR:
			s, _, _, err := strconv.UnquoteChar(v.Value[1:len(v.Value)-1], '\'')
			if err != nil {
				env.fail("bad char literal %s", v.Value)
			}
			return SV{t: tb.Int(int64(s)), typ: types.Typ[types.Rune], untyped: true}
		}
	case *ast.Ident:
		return env.ident(v)
	case *ast.UnaryExpr:
		a := env.eval(v.X)
		switch v.Op {
		case token.NOT:
			return SV{t: tb.Not(a.t), typ: types.Typ[types.Bool]}
		case token.SUB:
			return SV{t: tb.Neg(a.t), typ: a.typ, untyped: a.untyped}
		case token.ADD:
			return a
		case token.AND: // address-of: only of something that has an address
			if a.addr != nil {
				return SV{t: tb.Fresh("specaddr", RefSort), typ: types.NewPointer(a.typ), addr: a.addr, pointee: true}
			}
		}
	case *ast.StarExpr:
		a := env.eval(v.X)
		pt, ok := a.typ.Underlying().(*types.Pointer)
		if !ok {
			env.fail("dereference of non-pointer %s", exprString(v.X))
		}
		ad := a.addr
		if ad == nil || !a.pointee {
			ad = &Addr{ref: a.t, root: pt.Elem()}
		}
		return SV{t: e.load(env.st, ad), typ: pt.Elem(), addr: ad}
	case *ast.BinaryExpr:
		return env.binary(v)
	case *ast.SelectorExpr:
		return env.selector(v)
	case *ast.IndexExpr:
		return env.index(v)
	case *ast.SliceExpr:
		a := env.eval(v.X)
		if _, ok := a.typ.Underlying().(*types.Slice); !ok {
			env.fail("slice expression on non-slice")
		}
		lo, hi := tb.Int(0), tb.SLen(a.t)
		if v.Low != nil {
			lo = env.eval(v.Low).t
		}
		if v.High != nil {
			hi = env.eval(v.High).t
		}
		return SV{t: tb.MkSlice(tb.SRef(a.t), tb.Add(tb.SOff(a.t), lo), tb.Sub(hi, lo), tb.Sub(tb.SCap(a.t), lo)), typ: a.typ}
	case *ast.CallExpr:
		return env.call(v)
	case *ast.FuncLit:
		env.fail("function literal outside a quantifier")
	case *ast.CompositeLit:
		env.fail("composite literals are not supported in specifications")
	}
	env.fail("unsupported specification expression %T: %s", x, exprString(x))
	return SV{}
}

func (env *evalEnv) ident(v *ast.Ident) SV {
	e := env.e
	tb := e.tb
	if strings.HasPrefix(v.Name, "dollar__") {
		if sv, ok := env.vars[strings.TrimPrefix(v.Name, "dollar__")]; ok {
			return sv
		}
	}
	if sv, ok := env.bound[v.Name]; ok {
		return sv
	}
	if sv, ok := env.vars[v.Name]; ok {
		return sv
	}
	if t, ok := env.typeVars[v.Name]; ok {
		return SV{tname: t}
	}
	switch v.Name {
	case "true":
		return SV{t: tb.True(), typ: types.Typ[types.Bool]}
	case "false":
		return SV{t: tb.False(), typ: types.Typ[types.Bool]}
	case "nil":
		return SV{t: tb.Int(0), untyped: true}
	case "all_":
		return SV{all: true}
	case "self":
		if env.self.t != nil {
			return env.self
		}
	}
	if env.pkg != nil {
		if obj := env.pkg.Scope().Lookup(v.Name); obj != nil {
			return env.object(obj)
		}
		// imported package name?
		for _, imp := range env.pkg.Imports() {
			if imp.Name() == v.Name {
				return SV{pkg: imp}
			}
		}
	}
	// any package of the repository by name (contracts may name types of packages the code does not import)
	for _, p := range e.L.pkgs {
		if p.Name == v.Name && p.Types != nil {
			return SV{pkg: p.Types}
		}
	}
	if obj := types.Universe.Lookup(v.Name); obj != nil {
		if tn, ok := obj.(*types.TypeName); ok {
			return SV{tname: tn.Type()}
		}
	}
	env.fail("unknown identifier %q", v.Name)
	return SV{}
}

func (env *evalEnv) object(obj types.Object) SV {
	e := env.e
	tb := e.tb
	switch o := obj.(type) {
	case *types.Const:
		switch e.sortOf(o.Type()) {
		case "Int":
			if bi, ok := constant.Val(constant.ToInt(o.Val())).(*big.Int); ok {
				return SV{t: tb.BigInt(bi), typ: o.Type()}
			}
			i, _ := constant.Int64Val(constant.ToInt(o.Val()))
			return SV{t: tb.Int(i), typ: o.Type(), untyped: isUntyped(o.Type())}
		case "Real":
			return SV{t: tb.Real(ratOf(o.Val())), typ: o.Type(), untyped: isUntyped(o.Type())}
		case "Bool":
			return SV{t: tb.Bool(constant.BoolVal(o.Val())), typ: o.Type()}
		case "Str":
			return SV{t: tb.StrLit(constant.StringVal(o.Val())), typ: o.Type()}
		}
	case *types.TypeName:
		return SV{tname: o.Type()}
	case *types.Var: // package-level variable
		if g := e.L.globalFor(o); g != nil {
			pt := g.Type().(*types.Pointer).Elem()
			return SV{t: e.globalRead(g, pt), typ: pt}
		}
	}
	env.fail("cannot use %s in a specification", obj)
	return SV{}
}

func isUntyped(t types.Type) bool {
	b, ok := t.(*types.Basic)
	return ok && b.Info()&types.IsUntyped != 0
}

func (env *evalEnv) binary(v *ast.BinaryExpr) SV {
	tb := env.tb()
	boolT := types.Typ[types.Bool]
	if v.Op == token.LAND || v.Op == token.LOR {
		a, b := env.eval(v.X), env.eval(v.Y)
		if v.Op == token.LAND {
			return SV{t: tb.And(a.t, b.t), typ: boolT}
		}
		return SV{t: tb.Or(a.t, b.t), typ: boolT}
	}
	a, b := env.coerce(env.eval(v.X), env.eval(v.Y))
	switch v.Op {
	case token.EQL:
		if a.t.sort == "Str" {
			return SV{t: env.e.strEq(a.t, b.t), typ: boolT}
		}
		return SV{t: tb.Eq(a.t, b.t), typ: boolT}
	case token.NEQ:
		if a.t.sort == "Str" {
			return SV{t: tb.Not(env.e.strEq(a.t, b.t)), typ: boolT}
		}
		return SV{t: tb.Not(tb.Eq(a.t, b.t)), typ: boolT}
	case token.LSS, token.LEQ, token.GTR, token.GEQ:
		if a.t.sort == "Str" {
			env.e.strOrderAxioms()
			lt := func(p, q *Term) *Term { return tb.Func("str.lt", []string{"Str", "Str"}, "Bool", p, q) }
			switch v.Op {
			case token.LSS:
				return SV{t: lt(a.t, b.t), typ: boolT}
			case token.LEQ:
				return SV{t: tb.Not(lt(b.t, a.t)), typ: boolT}
			case token.GTR:
				return SV{t: lt(b.t, a.t), typ: boolT}
			default:
				return SV{t: tb.Not(lt(a.t, b.t)), typ: boolT}
			}
		}
		switch v.Op {
		case token.LSS:
			return SV{t: tb.Lt(a.t, b.t), typ: boolT}
		case token.LEQ:
			return SV{t: tb.Le(a.t, b.t), typ: boolT}
		case token.GTR:
			return SV{t: tb.Gt(a.t, b.t), typ: boolT}
		default:
			return SV{t: tb.Ge(a.t, b.t), typ: boolT}
		}
	case token.ADD:
		if a.t.sort == "Str" {
			t := tb.Func("str.cat", []string{"Str", "Str"}, "Str", a.t, b.t)
			return SV{t: t, typ: a.typ}
		}
		return SV{t: tb.Add(a.t, b.t), typ: a.typ, untyped: a.untyped && b.untyped}
	case token.SUB:
		return SV{t: tb.Sub(a.t, b.t), typ: a.typ, untyped: a.untyped && b.untyped}
	case token.MUL:
		return SV{t: tb.Mul(a.t, b.t), typ: a.typ, untyped: a.untyped && b.untyped}
	case token.QUO:
		if a.t.sort == "Real" {
			return SV{t: tb.RealDiv(a.t, b.t), typ: a.typ}
		}
		return SV{t: tb.IntDiv(a.t, b.t), typ: a.typ}
	case token.REM:
		return SV{t: tb.IntRem(a.t, b.t), typ: a.typ}
	}
	env.fail("unsupported operator %s", v.Op)
	return SV{}
}

func (env *evalEnv) selector(v *ast.SelectorExpr) SV {
	e := env.e
	tb := e.tb
	base := env.eval(v.X)
	if base.pkg != nil {
		obj := base.pkg.Scope().Lookup(v.Sel.Name)
		if obj == nil {
			env.fail("%s.%s not found", base.pkg.Name(), v.Sel.Name)
		}
		return env.object(obj)
	}
	if base.typ == nil {
		env.fail("selector on untyped value %s", exprString(v))
	}
	t := base.typ
	isPtr := false
	if p, ok := t.Underlying().(*types.Pointer); ok {
		t = p.Elem()
		isPtr = true
	}
	obj, index, _ := types.LookupFieldOrMethod(t, true, env.pkg, v.Sel.Name)
	if obj == nil {
		// unexported field of another package: look it up in that type's package
		if n, ok := t.(*types.Named); ok && n.Obj().Pkg() != nil {
			obj, index, _ = types.LookupFieldOrMethod(t, true, n.Obj().Pkg(), v.Sel.Name)
		}
	}
	fld, ok := obj.(*types.Var)
	if !ok || !fld.IsField() {
		env.fail("%s has no field %s", t, v.Sel.Name)
	}
	cur := base
	curT := t
	curPtr := isPtr
	for _, fi := range index {
		su, ok := curT.Underlying().(*types.Struct)
		if !ok {
			env.fail("field path through non-struct %s", curT)
		}
		ft := su.Field(fi).Type()
		if curPtr {
			ad := cur.addr
			if ad == nil || !cur.pointee {
				ad = &Addr{ref: cur.t, root: curT}
			}
			ad = ad.extend(step{kind: stField, field: fi, cont: curT})
			cur = SV{t: e.load(env.st, ad), typ: ft, addr: ad}
		} else {
			s, _ := e.structOf(curT)
			var ad *Addr
			if cur.addr != nil {
				ad = cur.addr.extend(step{kind: stField, field: fi, cont: curT})
			}
			cur = SV{t: tb.Field(s, fi, cur.t), typ: ft, addr: ad}
		}
		// continue through embedded fields
		curT = ft
		curPtr = false
		if p, ok := ft.Underlying().(*types.Pointer); ok {
			curT = p.Elem()
			curPtr = true
			cur.addr = nil
		}
	}
	// a field read yields a value; its own address (for &x.f or nested selection) stays in addr only for struct-typed values
	if _, isStruct := cur.typ.Underlying().(*types.Struct); !isStruct {
		if _, isArr := cur.typ.Underlying().(*types.Array); !isArr {
			cur.addr = keepAddrFor(cur)
		}
	}
	e.assumeWF(tb.True(), cur.typ, cur.t)
	return cur
}

// keepAddrFor: the location of a scalar field is remembered so that `assigns x.f` can name it.
func keepAddrFor(v SV) *Addr { return v.addr }

func (env *evalEnv) index(v *ast.IndexExpr) SV {
	e := env.e
	tb := e.tb
	base := env.eval(v.X)
	idx := env.eval(v.Index)
	if base.typ == nil {
		env.fail("index on untyped value")
	}
	switch t := base.typ.Underlying().(type) {
	case *types.Slice:
		if idx.all {
			return SV{all: true, t: base.t, typ: t.Elem(), addr: &Addr{elem: true, ref: tb.SRef(base.t), root: t.Elem()}}
		}
		ad := &Addr{elem: true, ref: tb.SRef(base.t), idx: tb.Add(tb.SOff(base.t), idx.t), off: tb.SOff(base.t), rel: idx.t, root: t.Elem()}
		r := e.load(env.st, ad)
		e.assumeWF(tb.True(), t.Elem(), r)
		return SV{t: r, typ: t.Elem(), addr: ad}
	case *types.Array:
		var ad *Addr
		if base.addr != nil {
			ad = base.addr.extend(step{kind: stIndex, idx: idx.t, cont: base.typ})
		}
		return SV{t: tb.Select(base.t, idx.t), typ: t.Elem(), addr: ad}
	case *types.Map:
		val, has, m := e.mapRegs(base.typ)
		_ = has
		r := tb.Select(tb.Select(e.reg(env.st, val), base.t), idx.t)
		return SV{t: r, typ: m.Elem()}
	case *types.Basic:
		if t.Info()&types.IsString != 0 {
			return SV{t: tb.Func("str.at", []string{"Str", "Int"}, "Int", base.t, idx.t), typ: types.Typ[types.Byte]}
		}
	}
	env.fail("cannot index %s", base.typ)
	return SV{}
}

func (env *evalEnv) resolveType(x ast.Expr) types.Type {
	switch v := x.(type) {
	case *ast.Ident:
		sv := env.ident(v)
		if sv.tname != nil {
			return sv.tname
		}
	case *ast.SelectorExpr:
		sv := env.selector(v)
		if sv.tname != nil {
			return sv.tname
		}
	case *ast.StarExpr:
		return types.NewPointer(env.resolveType(v.X))
	case *ast.ArrayType:
		if v.Len == nil {
			return types.NewSlice(env.resolveType(v.Elt))
		}
	case *ast.ParenExpr:
		return env.resolveType(v.X)
	case *ast.IndexExpr: // generic instantiation T[V]: use the instantiation that exists in the program
		base := env.resolveType(v.X)
		if n, ok := base.(*types.Named); ok {
			arg := env.resolveType(v.Index)
			inst, err := types.Instantiate(nil, n.Origin(), []types.Type{arg}, false)
			if err == nil {
				return inst
			}
		}
	}
	env.fail("not a type: %s", exprString(x))
	return nil
}

func (env *evalEnv) typeFromText(s string) types.Type {
	ex, err := parser.ParseExpr(s)
	if err != nil {
		env.fail("bad type %q", s)
	}
	return env.resolveType(ex)
}

func (env *evalEnv) call(v *ast.CallExpr) SV {
	e := env.e
	tb := e.tb
	boolT := types.Typ[types.Bool]
	if id, ok := v.Fun.(*ast.Ident); ok {
		switch id.Name {
		case "implies_":
			a, b := env.eval(v.Args[0]), env.eval(v.Args[1])
			return SV{t: tb.Imp(a.t, b.t), typ: boolT}
		case "iff_":
			a, b := env.eval(v.Args[0]), env.eval(v.Args[1])
			return SV{t: tb.Eq(a.t, b.t), typ: boolT}
		case "ite":
			c := env.eval(v.Args[0])
			a, b := env.coerce(env.eval(v.Args[1]), env.eval(v.Args[2]))
			return SV{t: tb.Ite(c.t, a.t, b.t), typ: a.typ}
		case "old":
			if env.old == nil {
				env.fail("old() is not available here")
			}
			n := env.clone()
			n.st = env.old
			if env.oldVars != nil {
				n.vars = env.oldVars
			}
			return n.eval(v.Args[0])
		case "len":
			a := env.eval(v.Args[0])
			switch a.t.sort {
			case "Slice":
				return SV{t: tb.SLen(a.t), typ: types.Typ[types.Int]}
			case "Str":
				return SV{t: tb.StrLen(a.t), typ: types.Typ[types.Int]}
			}
			if _, ok := a.typ.Underlying().(*types.Array); ok {
				return SV{t: tb.Int(a.typ.Underlying().(*types.Array).Len()), typ: types.Typ[types.Int]}
			}
			if _, ok := a.typ.Underlying().(*types.Map); ok {
				return SV{t: tb.Ite(tb.Eq(a.t, tb.Int(0)), tb.Int(0), e.mapLen(env.st, a.t)), typ: types.Typ[types.Int]}
			}
			env.fail("len of %s", a.typ)
		case "cap":
			a := env.eval(v.Args[0])
			return SV{t: tb.SCap(a.t), typ: types.Typ[types.Int]}
		case "forall_", "exists_":
			lo, hi := env.eval(v.Args[0]), env.eval(v.Args[1])
			fl := v.Args[2].(*ast.FuncLit)
			name := fl.Type.Params.List[0].Names[0].Name
			n := env.clone()
			bv := tb.BoundVar(fmt.Sprintf("%s_%d", name, len(env.bound)), "Int")
			n.bound[name] = SV{t: bv, typ: types.Typ[types.Int]}
			body := n.eval(fl.Body.List[0].(*ast.ReturnStmt).Results[0])
			rng := tb.And(tb.Le(lo.t, bv), tb.Lt(bv, hi.t))
			if id.Name == "forall_" {
				return SV{t: tb.Forall([]*Term{bv}, tb.Imp(rng, body.t)), typ: boolT}
			}
			return SV{t: tb.Exists([]*Term{bv}, tb.And(rng, body.t)), typ: boolT}
		case "forallT_", "existsT_":
			fl := v.Args[0].(*ast.FuncLit)
			n := env.clone()
			var bvs []*Term
			var guards []*Term
			for _, f := range fl.Type.Params.List {
				ft := env.resolveType(f.Type)
				for _, nm := range f.Names {
					bv := tb.BoundVar(fmt.Sprintf("%s_%d", nm.Name, len(n.bound)), e.sortOf(ft))
					n.bound[nm.Name] = SV{t: bv, typ: ft}
					bvs = append(bvs, bv)
					guards = append(guards, e.wf(ft, bv, 0))
				}
			}
			body := n.eval(fl.Body.List[0].(*ast.ReturnStmt).Results[0])
			if id.Name == "forallT_" {
				return SV{t: tb.Forall(bvs, tb.Imp(tb.And(guards...), body.t)), typ: boolT}
			}
			return SV{t: tb.Exists(bvs, tb.And(tb.And(guards...), body.t)), typ: boolT}
		case "typeis":
			a := env.eval(v.Args[0])
			t := env.resolveType(v.Args[1])
			return SV{t: tb.IsBox(e.typeKey(t), e.sortOf(t), a.t), typ: boolT}
		case "unbox":
			a := env.eval(v.Args[0])
			t := env.resolveType(v.Args[1])
			return SV{t: tb.Unbox(e.typeKey(t), e.sortOf(t), a.t), typ: t}
		case "box":
			a := env.eval(v.Args[0])
			if a.t.sort == "Iface" {
				return a // already an interface value
			}
			return SV{t: tb.Box(e.typeKey(a.typ), e.sortOf(a.typ), a.t), typ: types.NewInterfaceType(nil, nil)}
		case "fresh":
			a := env.eval(v.Args[0])
			r := a.t
			if a.t.sort == "Slice" {
				r = tb.SRef(a.t)
			}
			if env.calleeFresh {
				// postcondition of a callee, assumed at the call site: the object was allocated by the callee, so it is
				// none of this function's own allocations (small negative literals)
				return SV{t: tb.Le(r, tb.Int(-100000)), typ: boolT}
			}
			return SV{t: tb.Lt(r, tb.Int(0)), typ: boolT}
		case "mapkey":
			// mapkey(m, n): the key iteration n of a complete range over the Go map m yields (option map-ranges-complete)
			if len(v.Args) != 2 {
				env.fail("mapkey(m, n) takes a map and an index")
			}
			mv := env.eval(v.Args[0])
			nv := env.eval(v.Args[1])
			mt, ok := mv.typ.Underlying().(*types.Map)
			if !ok {
				env.fail("mapkey: %s is not a map", exprString(v.Args[0]))
			}
			_, has, _ := e.mapRegs(mt)
			row := tb.Select(e.reg(env.st, has), mv.t)
			return SV{t: e.mapEnumKey(row, nv.t), typ: mt.Key()}
		case "yieldcount":
			if e.yieldParam == nil {
				env.fail("yieldcount() outside a unit with a `yields` clause")
			}
			return SV{t: e.yieldCount(env.st), typ: types.Typ[types.Int]}
		case "yieldstopped", "yieldbad":
			// the `yields` protocol: the callback has returned false / it was called (or handed on) after that
			if e.yieldParam == nil {
				env.fail("%s() outside a unit with a `yields` clause", id.Name)
			}
			if id.Name == "yieldstopped" {
				return SV{t: e.yieldStopped(env.st), typ: boolT}
			}
			return SV{t: e.yieldBad(env.st), typ: boolT}
		case "calleefresh":
			// allocated by a callee: distinct from everything that existed at entry and from this function's own allocations
			a := env.eval(v.Args[0])
			r := a.t
			if a.t.sort == "Slice" {
				r = tb.SRef(a.t)
			}
			return SV{t: tb.Le(r, tb.Int(-100000)), typ: boolT}
		case "alive0":
			a := env.eval(v.Args[0])
			r := a.t
			if a.t.sort == "Slice" {
				r = tb.SRef(a.t)
			}
			return SV{t: tb.Gt(r, tb.Int(0)), typ: boolT}
		case "nonnil":
			a := env.eval(v.Args[0])
			switch {
			case a.t.sort == "Iface":
				return SV{t: tb.Not(tb.Eq(a.t, tb.NilIface())), typ: boolT}
			case a.t.sort == "Fn":
				return SV{t: tb.Not(tb.Eq(a.t, tb.Const("nilFn", "Fn"))), typ: boolT}
			case a.t.sort == RefSort && a.typ != nil && isRefType(a.typ):
				return SV{t: tb.Not(tb.Eq(a.t, tb.Int(0))), typ: boolT}
			}
			return SV{t: tb.True(), typ: boolT}
		case "floor":
			a := env.eval(v.Args[0])
			return SV{t: tb.ToReal(tb.ToInt(a.t)), typ: types.Typ[types.Float64]}
		case "haskey":
			m, k := env.eval(v.Args[0]), env.eval(v.Args[1])
			if _, ok := m.typ.Underlying().(*types.Map); !ok {
				env.fail("haskey needs a Go map")
			}
			_, has, _ := e.mapRegs(m.typ)
			return SV{t: tb.And(tb.Not(tb.Eq(m.t, tb.Int(0))), tb.Select(tb.Select(e.reg(env.st, has), m.t), k.t)), typ: boolT}
		case "log":
			w := env.eval(v.Args[0])
			return SV{wlog: true, t: env.writerOfSV(w), typ: types.Typ[types.Int]}
		case "loglen":
			w := env.eval(v.Args[0])
			return SV{t: e.logLen(env.st, env.writerOfSV(w)), typ: types.Typ[types.Int]}
		case "logkind", "logint", "logstr":
			w := env.eval(v.Args[0])
			i := env.eval(v.Args[1])
			name := map[string]string{"logkind": "W:kind", "logint": "W:int", "logstr": "W:str"}[id.Name]
			t := tb.Select(tb.Select(e.reg(env.st, e.wReg(name)), env.writerOfSV(w)), i.t)
			if id.Name == "logstr" {
				return SV{t: t, typ: types.Typ[types.String]}
			}
			return SV{t: t, typ: types.Typ[types.Int]}
		case "runecount":
			a := env.eval(v.Args[0])
			return SV{t: e.runeCount(a.t), typ: types.Typ[types.Int]}
		case "runeat":
			a, i := env.eval(v.Args[0]), env.eval(v.Args[1])
			return SV{t: e.runeAt(a.t, i.t), typ: types.Typ[types.Rune]}
		case "ref": // the reference behind a slice / pointer
			a := env.eval(v.Args[0])
			if a.t.sort == "Slice" {
				return SV{t: tb.SRef(a.t), typ: types.Typ[types.Int]}
			}
			return SV{t: a.t, typ: types.Typ[types.Int]}
		case "off":
			a := env.eval(v.Args[0])
			return SV{t: tb.SOff(a.t), typ: types.Typ[types.Int]}
		}
		if g, ok := e.L.contracts.ghosts[id.Name]; ok {
			return env.ghostCall(g, v)
		}
	}
	// conversion T(x)?
	if sv, err := env.tryType(v.Fun); err == nil && sv != nil && len(v.Args) == 1 {
		a := env.eval(v.Args[0])
		return env.convertTo(a, sv)
	}
	env.fail("unsupported call in specification: %s", exprString(v))
	return SV{}
}

func (env *evalEnv) tryType(x ast.Expr) (t types.Type, err error) {
	defer func() {
		if r := recover(); r != nil {
			if _, ok := r.(evalError); ok {
				err = fmt.Errorf("not a type")
				return
			}
			panic(r)
		}
	}()
	return env.resolveType(x), nil
}

func (env *evalEnv) convertTo(a SV, t types.Type) SV {
	e := env.e
	tb := e.tb
	to := e.sortOf(t)
	switch {
	case a.t.sort == to:
		return SV{t: a.t, typ: t}
	case a.t.sort == "Int" && to == "Real":
		return SV{t: tb.ToReal(a.t), typ: t}
	case a.t.sort == "Real" && to == "Int":
		xr := a.t
		trunc := tb.Ite(tb.Ge(xr, tb.Real(new(big.Rat))), tb.ToInt(xr), tb.Neg(tb.ToInt(tb.Neg(xr))))
		return SV{t: trunc, typ: t}
	}
	env.fail("unsupported conversion %s -> %s", a.t.sort, to)
	return SV{}
}

func (env *evalEnv) ghostCall(g *GhostFunc, v *ast.CallExpr) SV {
	e := env.e
	tb := e.tb
	if len(v.Args) != len(g.params) {
		env.fail("ghost %s: wrong number of arguments", g.name)
	}
	// the ghost's own package scope is used to resolve its parameter types
	genv := env.clone()
	if p := e.L.typesPkg(g.pkg); p != nil {
		genv.pkg = p
	}
	var args []SV
	for _, a := range v.Args {
		args = append(args, env.eval(a))
	}
	if g.body != nil { // predicate: inline
		if env.depth > 8 {
			env.fail("predicate expansion too deep: %s", g.name)
		}
		n := genv.clone()
		n.depth = env.depth + 1
		n.vars = map[string]SV{}
		n.oldVars = nil
		for i, p := range g.params {
			a := args[i]
			if a.typ == nil || a.untyped {
				pt := genv.typeFromTextGeneric(p.typ, a)
				if pt != nil {
					a = env.convertUntyped(a, pt)
				}
			}
			n.vars[p.name] = a
		}
		n.bound = env.bound
		return n.eval(g.body)
	}
	var sorts []string
	var ts []*Term
	for i, p := range g.params {
		a := args[i]
		pt := genv.typeFromTextGeneric(p.typ, a)
		if pt != nil && (a.untyped || a.typ == nil) {
			a = env.convertUntyped(a, pt)
		}
		sorts = append(sorts, a.t.sort)
		ts = append(ts, a.t)
	}
	rt := genv.typeFromTextGeneric(g.result, SV{})
	if rt == nil {
		env.fail("ghost %s: cannot resolve result type %s", g.name, g.result)
	}
	if g.isVar {
		if len(ts) != 1 {
			env.fail("ghost var %s: exactly one index argument is supported", g.name)
		}
		r := e.ghostReg(g.name, sorts[0], e.sortOf(rt), rt)
		v := tb.Select(e.reg(env.st, r), ts[0])
		if !v.bound {
			e.assumeWF(tb.True(), rt, v)
		}
		return SV{t: v, typ: rt, greg: r, gidx: ts[0]}
	}
	r := tb.Func("ghost_"+g.name, sorts, e.sortOf(rt), ts...)
	if !r.bound {
		e.assumeWF(tb.True(), rt, r)
	}
	return SV{t: r, typ: rt}
}

func (env *evalEnv) convertUntyped(a SV, t types.Type) SV {
	e := env.e
	if a.typ == nil && a.t.op == "#i0" {
		return SV{t: e.zero(t), typ: t}
	}
	if a.t.sort == "Int" && e.sortOf(t) == "Real" {
		return SV{t: e.tb.ToReal(a.t), typ: t}
	}
	a.typ = t
	a.untyped = false
	return a
}

// typeFromTextGeneric resolves a type text; `any`-like type parameters (single upper-case letters) take the argument's type.
func (env *evalEnv) typeFromTextGeneric(s string, arg SV) types.Type {
	s = strings.TrimSpace(s)
	if len(s) == 1 && s[0] >= 'A' && s[0] <= 'Z' {
		return arg.typ
	}
	if s == "any" {
		if arg.typ != nil {
			return arg.typ
		}
		return types.NewInterfaceType(nil, nil)
	}
	t, err := func() (t types.Type, err error) {
		defer func() {
			if r := recover(); r != nil {
				if ee, ok := r.(evalError); ok {
					err = ee
					return
				}
				panic(r)
			}
		}()
		return env.typeFromText(s), nil
	}()
	if err != nil {
		if arg.typ != nil {
			return arg.typ
		}
		env.fail("cannot resolve type %q: %v", s, err)
	}
	return t
}

// isXMLNameLit decides the XML Name production for a literal (ASCII subset plus any non-ASCII letter start; conservative).
func isXMLNameLit(s string) bool {
	if s == "" {
		return false
	}
	for i, r := range s {
		start := r == '_' || r == ':' || (r >= 'a' && r <= 'z') || (r >= 'A' && r <= 'Z')
		if start {
			continue
		}
		if i > 0 && (r == '-' || r == '.' || (r >= '0' && r <= '9')) {
			continue
		}
		return false
	}
	return true
}

func isRefType(t types.Type) bool {
	switch t.Underlying().(type) {
	case *types.Pointer, *types.Map, *types.Chan:
		return true
	}
	return false
}

// writerOfSV: the writer object a specification expression denotes: a pointer to a buffer, an interface holding one,
// or a local bytes.Buffer / strings.Builder variable (then the object is the variable's cell).
func (env *evalEnv) writerOfSV(w SV) *Term {
	if r := env.e.writerRef(w.t, w.typ); r != nil {
		return r
	}
	if w.addr != nil && w.addr.ref != nil && len(w.addr.path) == 0 {
		return w.addr.ref
	}
	env.fail("not a writer: %s", w.typ)
	return nil
}
