package main

import (
	"fmt"
	"math/big"
	"sort"
	"strings"
)

// Term is a hash-consed SMT term (a DAG node).
type Term struct {
	op    string  // operator or leaf name
	args  []*Term // nil for leaves
	sort  string
	id    int
	bound bool // mentions a quantifier-bound variable
	size  int  // tree size, saturating
}

func (t *Term) String() string { return printInline(t, 0) }

// TB is a term builder: the hash-cons table plus the declarations of one verification unit.
type TB struct {
	tab         map[string]*Term
	n           int
	decls       []string        // declare-fun / declare-const lines in order
	declSet     map[string]bool // by name
	nfresh      int
	structs     []*structSort // datatype declarations (emitted in one block)
	structByKey map[string]*structSort
	ifaceCtors  []ifaceCtor
	ifaceByKey  map[string]int
	strLits     map[string]*Term
	strLitList  []*Term
	axioms      []*Term // background axioms asserted before everything else
	onFresh     func(name string)
	constSort   map[string]string
}

type structSort struct {
	name   string
	fields []string // field sorts
	fnames []string
}

type ifaceCtor struct {
	id   int
	sort string
	key  string
}

func NewTB() *TB {
	return &TB{tab: map[string]*Term{}, declSet: map[string]bool{}, structByKey: map[string]*structSort{}, ifaceByKey: map[string]int{}, strLits: map[string]*Term{}}
}

func (b *TB) mk(op, srt string, args ...*Term) *Term {
	var k strings.Builder
	k.WriteString(op)
	k.WriteByte('|')
	k.WriteString(srt)
	for _, a := range args {
		fmt.Fprintf(&k, "|%d", a.id)
	}
	key := k.String()
	if t, ok := b.tab[key]; ok {
		return t
	}
	b.n++
	t := &Term{op: op, args: args, sort: srt, id: b.n, size: 1}
	for _, a := range args {
		if a.bound {
			t.bound = true
		}
		t.size += a.size
		if t.size > 1<<20 {
			t.size = 1 << 20
		}
	}
	b.tab[key] = t
	return t
}

// ---- leaves ----

func (b *TB) True() *Term  { return b.mk("true", "Bool") }
func (b *TB) False() *Term { return b.mk("false", "Bool") }
func (b *TB) Bool(v bool) *Term {
	if v {
		return b.True()
	}
	return b.False()
}
func (b *TB) Int(n int64) *Term {
	return b.mk(fmt.Sprintf("#i%d", n), "Int")
}
func (b *TB) BigInt(n *big.Int) *Term {
	return b.mk("#i"+n.String(), "Int")
}
func (b *TB) Real(r *big.Rat) *Term {
	return b.mk("#r"+r.String(), "Real")
}
func (b *TB) RealF(f float64) *Term {
	r := new(big.Rat)
	r.SetFloat64(f)
	return b.Real(r)
}

// Const declares (once) and returns an uninterpreted constant.
func (b *TB) Const(name, srt string) *Term {
	name = sanitize(name)
	if !b.declSet[name] {
		b.declSet[name] = true
		b.decls = append(b.decls, fmt.Sprintf("(declare-fun %s () %s)", name, srt))
		if b.constSort == nil {
			b.constSort = map[string]string{}
		}
		b.constSort[name] = srt
	} else if s0, ok := b.constSort[name]; ok && s0 != srt {
		panic(fmt.Sprintf("engine: constant %s declared with sorts %s and %s", name, s0, srt))
	}
	return b.mk(name, srt)
}

func (b *TB) Fresh(prefix, srt string) *Term {
	b.nfresh++
	t := b.Const(fmt.Sprintf("%s!%d", sanitize(prefix), b.nfresh), srt)
	if b.onFresh != nil {
		b.onFresh(t.op)
	}
	return t
}

// BoundVar is a quantifier-bound variable (never declared).
func (b *TB) BoundVar(name, srt string) *Term {
	t := b.mk("?"+name, srt)
	t.bound = true
	return t
}

// Func declares (once) an uninterpreted function and applies it.
func (b *TB) Func(name string, argSorts []string, res string, args ...*Term) *Term {
	name = sanitize(name)
	if !b.declSet[name] {
		b.declSet[name] = true
		b.decls = append(b.decls, fmt.Sprintf("(declare-fun %s (%s) %s)", name, strings.Join(argSorts, " "), res))
	}
	if len(args) != len(argSorts) {
		panic("arity mismatch for " + name)
	}
	for i, a := range args {
		if a.sort != argSorts[i] {
			panic(fmt.Sprintf("sort mismatch for %s arg %d: %s vs %s (%s)", name, i, a.sort, argSorts[i], a))
		}
	}
	return b.mk(name, res, args...)
}

// ---- boolean structure ----

func (b *TB) isTrue(t *Term) bool  { return t.op == "true" }
func (b *TB) isFalse(t *Term) bool { return t.op == "false" }

func (b *TB) Not(a *Term) *Term {
	mustSort(a, "Bool")
	switch {
	case b.isTrue(a):
		return b.False()
	case b.isFalse(a):
		return b.True()
	case a.op == "not":
		return a.args[0]
	}
	return b.mk("not", "Bool", a)
}

func (b *TB) And(xs ...*Term) *Term {
	var ys []*Term
	seen := map[int]bool{}
	for _, x := range xs {
		mustSort(x, "Bool")
		if b.isTrue(x) {
			continue
		}
		if b.isFalse(x) {
			return b.False()
		}
		if x.op == "and" {
			for _, y := range x.args {
				if !seen[y.id] {
					seen[y.id] = true
					ys = append(ys, y)
				}
			}
			continue
		}
		if !seen[x.id] {
			seen[x.id] = true
			ys = append(ys, x)
		}
	}
	for _, y := range ys {
		if y.op == "not" && seen[y.args[0].id] {
			return b.False()
		}
	}
	if len(ys) == 0 {
		return b.True()
	}
	if len(ys) == 1 {
		return ys[0]
	}
	return b.mk("and", "Bool", ys...)
}

func (b *TB) Or(xs ...*Term) *Term {
	var ys []*Term
	seen := map[int]bool{}
	for _, x := range xs {
		mustSort(x, "Bool")
		if b.isFalse(x) {
			continue
		}
		if b.isTrue(x) {
			return b.True()
		}
		if x.op == "or" {
			for _, y := range x.args {
				if !seen[y.id] {
					seen[y.id] = true
					ys = append(ys, y)
				}
			}
			continue
		}
		if !seen[x.id] {
			seen[x.id] = true
			ys = append(ys, x)
		}
	}
	for _, y := range ys {
		if y.op == "not" && seen[y.args[0].id] {
			return b.True()
		}
	}
	if len(ys) == 0 {
		return b.False()
	}
	if len(ys) == 1 {
		return ys[0]
	}
	return b.mk("or", "Bool", ys...)
}

func (b *TB) Imp(a, c *Term) *Term {
	mustSort(a, "Bool")
	mustSort(c, "Bool")
	switch {
	case b.isTrue(a):
		return c
	case b.isFalse(a), b.isTrue(c):
		return b.True()
	case b.isFalse(c):
		return b.Not(a)
	case a == c:
		return b.True()
	}
	return b.mk("=>", "Bool", a, c)
}

func (b *TB) Iff(a, c *Term) *Term { return b.Eq(a, c) }

func (b *TB) Eq(x, y *Term) *Term {
	if x.sort != y.sort {
		panic(fmt.Sprintf("Eq: sort mismatch %s vs %s: %s == %s", x.sort, y.sort, x, y))
	}
	if x == y {
		return b.True()
	}
	if x.isLit() && y.isLit() {
		return b.False() // distinct literals of the same sort
	}
	if x.sort == "Bool" {
		switch {
		case b.isTrue(x):
			return y
		case b.isTrue(y):
			return x
		case b.isFalse(x):
			return b.Not(y)
		case b.isFalse(y):
			return b.Not(x)
		}
	}
	// constructor applications of the same datatype: compare componentwise if both are mk_
	if strings.HasPrefix(x.op, "mk_") && x.op == y.op {
		var cs []*Term
		for i := range x.args {
			cs = append(cs, b.Eq(x.args[i], y.args[i]))
		}
		return b.And(cs...)
	}
	if x.id > y.id {
		x, y = y, x
	}
	return b.mk("=", "Bool", x, y)
}

func (t *Term) isLit() bool {
	return strings.HasPrefix(t.op, "#") || t.op == "true" || t.op == "false"
}

func (t *Term) intLit() (*big.Int, bool) {
	if strings.HasPrefix(t.op, "#i") {
		n, ok := new(big.Int).SetString(t.op[2:], 10)
		return n, ok
	}
	return nil, false
}

func (b *TB) Ite(c, x, y *Term) *Term {
	mustSort(c, "Bool")
	if x.sort != y.sort {
		panic(fmt.Sprintf("Ite: sort mismatch %s vs %s", x.sort, y.sort))
	}
	switch {
	case b.isTrue(c):
		return x
	case b.isFalse(c):
		return y
	case x == y:
		return x
	}
	if x.sort == "Bool" {
		if b.isTrue(x) && b.isFalse(y) {
			return c
		}
		if b.isFalse(x) && b.isTrue(y) {
			return b.Not(c)
		}
		if b.isTrue(x) {
			return b.Or(c, y)
		}
		if b.isFalse(y) {
			return b.And(c, x)
		}
	}
	return b.mk("ite", x.sort, c, x, y)
}

// ---- arithmetic ----

func mustSort(t *Term, s string) {
	if t.sort != s {
		panic(fmt.Sprintf("expected sort %s, got %s for %s", s, t.sort, t))
	}
}

func (b *TB) arith(op string, x, y *Term) *Term {
	if x.sort != y.sort {
		panic(fmt.Sprintf("%s: sort mismatch %s vs %s: %s , %s", op, x.sort, y.sort, x, y))
	}
	if x.sort == "Int" {
		xi, ok1 := x.intLit()
		yi, ok2 := y.intLit()
		if ok1 && ok2 {
			switch op {
			case "+":
				return b.BigInt(new(big.Int).Add(xi, yi))
			case "-":
				return b.BigInt(new(big.Int).Sub(xi, yi))
			case "*":
				return b.BigInt(new(big.Int).Mul(xi, yi))
			}
		}
		if ok2 && yi.Sign() == 0 && (op == "+" || op == "-") {
			return x
		}
		if ok1 && xi.Sign() == 0 && op == "+" {
			return y
		}
		if ok2 && yi.Cmp(big.NewInt(1)) == 0 && op == "*" {
			return x
		}
		if ok1 && xi.Cmp(big.NewInt(1)) == 0 && op == "*" {
			return y
		}
		// (x + c1) + c2 -> x + (c1+c2) ; (x + c1) - c2
		if ok2 && (op == "+" || op == "-") && x.op == "+" && len(x.args) == 2 {
			if c1, ok := x.args[1].intLit(); ok {
				c := new(big.Int)
				if op == "+" {
					c.Add(c1, yi)
				} else {
					c.Sub(c1, yi)
				}
				return b.arith("+", x.args[0], b.BigInt(c))
			}
		}
		if ok2 && op == "-" {
			return b.arith("+", x, b.BigInt(new(big.Int).Neg(yi)))
		}
	}
	return b.mk(op, x.sort, x, y)
}

func (b *TB) Add(x, y *Term) *Term { return b.arith("+", x, y) }
func (b *TB) Sub(x, y *Term) *Term { return b.arith("-", x, y) }
func (b *TB) Mul(x, y *Term) *Term { return b.arith("*", x, y) }
func (b *TB) Neg(x *Term) *Term {
	if n, ok := x.intLit(); ok {
		return b.BigInt(new(big.Int).Neg(n))
	}
	return b.mk("-", x.sort, x)
}
func (b *TB) IntDiv(x, y *Term) *Term { // Go semantics: truncation toward zero
	mustSort(x, "Int")
	mustSort(y, "Int")
	// SMT div is floor for positive divisor / ceil for negative (euclidean). Go truncates.
	q := b.mk("div", "Int", x, y)
	r := b.mk("mod", "Int", x, y)
	// euclidean: x = q*y + r, 0 <= r < |y|. truncated quotient: if x >= 0 or r == 0 then q else (y > 0 ? q+1 : q-1)
	return b.Ite(b.Or(b.Ge(x, b.Int(0)), b.Eq(r, b.Int(0))), q, b.Ite(b.Gt(y, b.Int(0)), b.Add(q, b.Int(1)), b.Sub(q, b.Int(1))))
}
func (b *TB) IntRem(x, y *Term) *Term { // Go semantics: sign of the dividend
	r := b.mk("mod", "Int", x, y)
	absY := b.Ite(b.Gt(y, b.Int(0)), y, b.Neg(y))
	return b.Ite(b.Or(b.Ge(x, b.Int(0)), b.Eq(r, b.Int(0))), r, b.Sub(r, absY))
}
func (b *TB) RealDiv(x, y *Term) *Term {
	mustSort(x, "Real")
	mustSort(y, "Real")
	return b.mk("/", "Real", x, y)
}
func (b *TB) ToReal(x *Term) *Term {
	mustSort(x, "Int")
	if n, ok := x.intLit(); ok {
		return b.Real(new(big.Rat).SetInt(n))
	}
	return b.mk("to_real", "Real", x)
}
func (b *TB) ToInt(x *Term) *Term { // floor
	mustSort(x, "Real")
	return b.mk("to_int", "Int", x)
}

func (b *TB) cmp(op string, x, y *Term) *Term {
	if x.sort != y.sort {
		panic(fmt.Sprintf("%s: sort mismatch %s vs %s: %s , %s", op, x.sort, y.sort, x, y))
	}
	if x.sort != "Int" && x.sort != "Real" {
		panic("comparison on sort " + x.sort)
	}
	if xi, ok := x.intLit(); ok {
		if yi, ok := y.intLit(); ok {
			c := xi.Cmp(yi)
			switch op {
			case "<":
				return b.Bool(c < 0)
			case "<=":
				return b.Bool(c <= 0)
			case ">":
				return b.Bool(c > 0)
			case ">=":
				return b.Bool(c >= 0)
			}
		}
	}
	if x == y {
		return b.Bool(op == "<=" || op == ">=")
	}
	// normalise to < and <=
	switch op {
	case ">":
		return b.mk("<", "Bool", y, x)
	case ">=":
		return b.mk("<=", "Bool", y, x)
	}
	return b.mk(op, "Bool", x, y)
}
func (b *TB) Lt(x, y *Term) *Term { return b.cmp("<", x, y) }
func (b *TB) Le(x, y *Term) *Term { return b.cmp("<=", x, y) }
func (b *TB) Gt(x, y *Term) *Term { return b.cmp(">", x, y) }
func (b *TB) Ge(x, y *Term) *Term { return b.cmp(">=", x, y) }

// ---- arrays ----

func arraySort(idx, elem string) string { return "(Array " + idx + " " + elem + ")" }

func arrayElemSort(s string) (idx, elem string) {
	// "(Array I E)" where I has no spaces unless parenthesised
	s = strings.TrimSuffix(strings.TrimPrefix(s, "(Array "), ")")
	depth := 0
	for i, c := range s {
		switch c {
		case '(':
			depth++
		case ')':
			depth--
		case ' ':
			if depth == 0 {
				return s[:i], s[i+1:]
			}
		}
	}
	panic("bad array sort " + s)
}

func (b *TB) Select(a, i *Term) *Term {
	is, es := arrayElemSort(a.sort)
	if i.sort != is {
		panic(fmt.Sprintf("select index sort %s vs %s", i.sort, is))
	}
	// select over store
	cur := a
	for cur.op == "store" {
		j := cur.args[1]
		if j == i {
			return cur.args[2]
		}
		if b.knownDistinct(i, j) {
			cur = cur.args[0]
			continue
		}
		break
	}
	return b.mk("select", es, cur, i)
}

func (b *TB) Store(a, i, v *Term) *Term {
	is, es := arrayElemSort(a.sort)
	if i.sort != is || v.sort != es {
		panic(fmt.Sprintf("store sorts: array %s index %s value %s", a.sort, i.sort, v.sort))
	}
	if a.op == "store" && a.args[1] == i {
		a = a.args[0]
	}
	return b.mk("store", a.sort, a, i, v)
}

// knownDistinct is a syntactic disequality test: distinct integer literals, x+c1 vs x+c2, distinct allocation constants.
func (b *TB) knownDistinct(x, y *Term) bool {
	if x == y {
		return false
	}
	if x.isLit() && y.isLit() {
		return true
	}
	bx, cx := splitOffset(x)
	by, cy := splitOffset(y)
	if bx == by && cx.Cmp(cy) != 0 {
		return true
	}
	if isAllocConst(x) && isAllocConst(y) {
		return true
	}
	if (isAllocConst(x) && y.op == "#i0") || (isAllocConst(y) && x.op == "#i0") {
		return true
	}
	return false
}

func isAllocConst(t *Term) bool { return len(t.args) == 0 && strings.HasPrefix(t.op, "alloc_") }

func splitOffset(t *Term) (*Term, *big.Int) {
	if n, ok := t.intLit(); ok {
		return nil, n
	}
	if t.op == "+" && len(t.args) == 2 {
		if c, ok := t.args[1].intLit(); ok {
			return t.args[0], c
		}
	}
	return t, new(big.Int)
}

// ---- datatypes ----

// Struct declares (once) a datatype for a struct sort.
func (b *TB) Struct(key, name string, fnames, fsorts []string) *structSort {
	if s, ok := b.structByKey[key]; ok {
		return s
	}
	s := &structSort{name: fmt.Sprintf("S%d_%s", len(b.structs), sanitize(name)), fields: fsorts, fnames: fnames}
	b.structByKey[key] = s
	b.structs = append(b.structs, s)
	return s
}

func (b *TB) structByName(name string) *structSort {
	for _, s := range b.structs {
		if s.name == name {
			return s
		}
	}
	return nil
}

func (b *TB) MkStruct(s *structSort, fs ...*Term) *Term {
	if len(fs) != len(s.fields) {
		panic("MkStruct arity " + s.name)
	}
	for i, f := range fs {
		if f.sort != s.fields[i] {
			panic(fmt.Sprintf("MkStruct %s field %d: %s vs %s", s.name, i, f.sort, s.fields[i]))
		}
	}
	// eta: mk(f0(t), f1(t), ...) == t
	if len(fs) > 0 && fs[0].op == s.name+".f0" {
		base := fs[0].args[0]
		same := true
		for i, f := range fs {
			if f.op != fmt.Sprintf("%s.f%d", s.name, i) || f.args[0] != base {
				same = false
				break
			}
		}
		if same {
			return base
		}
	}
	return b.mk("mk_"+s.name, s.name, fs...)
}

func (b *TB) Field(s *structSort, i int, t *Term) *Term {
	mustSort(t, s.name)
	if t.op == "mk_"+s.name {
		return t.args[i]
	}
	if t.op == "ite" && (t.args[1].op == "mk_"+s.name || t.args[2].op == "mk_"+s.name) {
		return b.Ite(t.args[0], b.Field(s, i, t.args[1]), b.Field(s, i, t.args[2]))
	}
	return b.mk(fmt.Sprintf("%s.f%d", s.name, i), s.fields[i], t)
}

func (b *TB) WithField(s *structSort, t *Term, i int, v *Term) *Term {
	fs := make([]*Term, len(s.fields))
	for j := range fs {
		if j == i {
			fs[j] = v
		} else {
			fs[j] = b.Field(s, j, t)
		}
	}
	return b.MkStruct(s, fs...)
}

// Slice datatype helpers (declared in the preamble).
func (b *TB) MkSlice(ref, off, ln, cp *Term) *Term {
	return b.mk("mkSlice", "Slice", ref, off, ln, cp)
}
func (b *TB) sliceSel(name string, i int, s *Term) *Term {
	mustSort(s, "Slice")
	if s.op == "mkSlice" {
		return s.args[i]
	}
	if s.op == "ite" && (s.args[1].op == "mkSlice" || s.args[2].op == "mkSlice") {
		return b.Ite(s.args[0], b.sliceSel(name, i, s.args[1]), b.sliceSel(name, i, s.args[2]))
	}
	return b.mk(name, "Int", s)
}
func (b *TB) SRef(s *Term) *Term { return b.sliceSel("s.ref", 0, s) }
func (b *TB) SOff(s *Term) *Term { return b.sliceSel("s.off", 1, s) }
func (b *TB) SLen(s *Term) *Term { return b.sliceSel("s.len", 2, s) }
func (b *TB) SCap(s *Term) *Term { return b.sliceSel("s.cap", 3, s) }

// Iface datatype: nilIface | box_k(unbox_k : sort)
func (b *TB) ifaceCtor(key, srt string) int {
	if id, ok := b.ifaceByKey[key]; ok {
		return id
	}
	id := len(b.ifaceCtors) + 1
	b.ifaceByKey[key] = id
	b.ifaceCtors = append(b.ifaceCtors, ifaceCtor{id: id, sort: srt, key: key})
	return id
}
func (b *TB) NilIface() *Term { return b.mk("nilIface", "Iface") }
func (b *TB) Box(key, srt string, v *Term) *Term {
	id := b.ifaceCtor(key, srt)
	mustSort(v, srt)
	return b.mk(fmt.Sprintf("box_%d", id), "Iface", v)
}
func (b *TB) IsBox(key, srt string, v *Term) *Term {
	id := b.ifaceCtor(key, srt)
	mustSort(v, "Iface")
	if strings.HasPrefix(v.op, "box_") {
		return b.Bool(v.op == fmt.Sprintf("box_%d", id))
	}
	if v.op == "nilIface" {
		return b.False()
	}
	return b.mk(fmt.Sprintf("(_ is box_%d)", id), "Bool", v)
}
func (b *TB) Unbox(key, srt string, v *Term) *Term {
	id := b.ifaceCtor(key, srt)
	mustSort(v, "Iface")
	if v.op == fmt.Sprintf("box_%d", id) {
		return v.args[0]
	}
	return b.mk(fmt.Sprintf("unbox_%d", id), srt, v)
}

// ---- strings ----

func (b *TB) StrLit(s string) *Term {
	if t, ok := b.strLits[s]; ok {
		return t
	}
	t := b.Const(fmt.Sprintf("strlit_%d_%s", len(b.strLits), sanitizeShort(s)), "Str")
	b.strLits[s] = t
	b.strLitList = append(b.strLitList, t)
	b.axioms = append(b.axioms, b.Eq(b.StrLen(t), b.Int(int64(len(s)))))
	// rune structure of short literals
	if rs := []rune(s); len(rs) <= 40 {
		b.axioms = append(b.axioms, b.Eq(b.Func("str.runecount", []string{"Str"}, "Int", t), b.Int(int64(len(rs)))))
		for i, r := range rs {
			b.axioms = append(b.axioms, b.Eq(b.Func("str.runeat", []string{"Str", "Int"}, "Int", t, b.Int(int64(i))), b.Int(int64(r))))
		}
	}
	return t
}

func (b *TB) litValue(t *Term) (string, bool) {
	for s, l := range b.strLits {
		if l == t {
			return s, true
		}
	}
	return "", false
}

func (b *TB) StrLen(s *Term) *Term {
	return b.Func("strlen", []string{"Str"}, "Int", s)
}

// ---- quantifiers ----

func (b *TB) Forall(vars []*Term, body *Term) *Term {
	if b.isTrue(body) {
		return body
	}
	args := append(append([]*Term{}, vars...), body)
	t := b.mk("forall", "Bool", args...)
	t.bound = false
	for _, a := range collectBound(body, map[int]bool{}) {
		isOwn := false
		for _, v := range vars {
			if v == a {
				isOwn = true
			}
		}
		if !isOwn {
			t.bound = true
		}
	}
	return t
}

func (b *TB) Exists(vars []*Term, body *Term) *Term {
	return b.Not(b.Forall(vars, b.Not(body)))
}

func collectBound(t *Term, seen map[int]bool) []*Term {
	if seen[t.id] || !t.bound {
		return nil
	}
	seen[t.id] = true
	if strings.HasPrefix(t.op, "?") && len(t.args) == 0 {
		return []*Term{t}
	}
	var out []*Term
	if t.op == "forall" {
		inner := collectBound(t.args[len(t.args)-1], seen)
		for _, v := range inner {
			own := false
			for _, q := range t.args[:len(t.args)-1] {
				if q == v {
					own = true
				}
			}
			if !own {
				out = append(out, v)
			}
		}
		return out
	}
	for _, a := range t.args {
		out = append(out, collectBound(a, seen)...)
	}
	return out
}

// ---- printing ----

func sanitize(s string) string {
	var sb strings.Builder
	for _, r := range s {
		if (r >= 'a' && r <= 'z') || (r >= 'A' && r <= 'Z') || (r >= '0' && r <= '9') || r == '_' || r == '.' || r == '$' || r == '!' {
			sb.WriteRune(r)
		} else {
			sb.WriteRune('_')
		}
	}
	return sb.String()
}

func sanitizeShort(s string) string {
	if len(s) > 16 {
		s = s[:16]
	}
	return sanitize(s)
}

func leafText(t *Term) string {
	switch {
	case strings.HasPrefix(t.op, "#i"):
		n := t.op[2:]
		if strings.HasPrefix(n, "-") {
			return "(- " + n[1:] + ")"
		}
		return n
	case strings.HasPrefix(t.op, "#r"):
		r, _ := new(big.Rat).SetString(t.op[2:])
		neg := r.Sign() < 0
		if neg {
			r = new(big.Rat).Neg(r)
		}
		var s string
		if r.IsInt() {
			s = r.Num().String() + ".0"
		} else {
			s = "(/ " + r.Num().String() + ".0 " + r.Denom().String() + ".0)"
		}
		if neg {
			return "(- " + s + ")"
		}
		return s
	case strings.HasPrefix(t.op, "?"):
		return t.op[1:]
	}
	return t.op
}

// printInline prints a term fully inline (for debugging and for bound sub-terms).
func printInline(t *Term, depth int) string {
	if len(t.args) == 0 {
		return leafText(t)
	}
	if depth > 60 {
		return "..."
	}
	if t.op == "forall" {
		var vs []string
		for _, v := range t.args[:len(t.args)-1] {
			vs = append(vs, "("+leafText(v)+" "+v.sort+")")
		}
		return "(forall (" + strings.Join(vs, " ") + ") " + printInline(t.args[len(t.args)-1], depth+1) + ")"
	}
	var sb strings.Builder
	sb.WriteString("(")
	sb.WriteString(t.op)
	for _, a := range t.args {
		sb.WriteString(" ")
		sb.WriteString(printInline(a, depth+1))
	}
	sb.WriteString(")")
	return sb.String()
}

// Printer emits terms into an SMT script, naming shared/big closed sub-terms with define-fun.
type Printer struct {
	out     *strings.Builder
	defined map[int]string
}

func NewPrinter(out *strings.Builder) *Printer {
	return &Printer{out: out, defined: map[int]string{}}
}

const inlineLimit = 12

func (p *Printer) ref(t *Term) string {
	if len(t.args) == 0 {
		return leafText(t)
	}
	if n, ok := p.defined[t.id]; ok {
		return n
	}
	var sb strings.Builder
	if t.op == "forall" {
		var vs []string
		for _, v := range t.args[:len(t.args)-1] {
			vs = append(vs, "("+leafText(v)+" "+v.sort+")")
		}
		sb.WriteString("(forall (" + strings.Join(vs, " ") + ") " + p.ref(t.args[len(t.args)-1]) + ")")
	} else {
		sb.WriteString("(")
		sb.WriteString(t.op)
		for _, a := range t.args {
			sb.WriteString(" ")
			sb.WriteString(p.ref(a))
		}
		sb.WriteString(")")
	}
	text := sb.String()
	if t.bound || t.size < inlineLimit {
		return text
	}
	name := fmt.Sprintf("d!%d", t.id)
	fmt.Fprintf(p.out, "(define-fun %s () %s %s)\n", name, t.sort, text)
	p.defined[t.id] = name
	return name
}

func (p *Printer) Assert(t *Term) {
	r := p.ref(t)
	fmt.Fprintf(p.out, "(assert %s)\n", r)
}

// Preamble prints sorts, datatypes and declarations.
func (b *TB) Preamble(out *strings.Builder) {
	out.WriteString("(declare-sort Str 0)\n(declare-sort Fn 0)\n")
	// one mutually recursive block: Slice, Iface, all structs
	var names, bodies []string
	names = append(names, "(Slice 0)")
	bodies = append(bodies, "((mkSlice (s.ref Int) (s.off Int) (s.len Int) (s.cap Int)))")
	names = append(names, "(Iface 0)")
	var ic strings.Builder
	ic.WriteString("((nilIface) (otherIface (otherId Int))")
	for _, c := range b.ifaceCtors {
		fmt.Fprintf(&ic, " (box_%d (unbox_%d %s))", c.id, c.id, c.sort)
	}
	ic.WriteString(")")
	bodies = append(bodies, ic.String())
	for _, s := range b.structs {
		names = append(names, "("+s.name+" 0)")
		var sb strings.Builder
		sb.WriteString("((mk_" + s.name)
		for i, f := range s.fields {
			fmt.Fprintf(&sb, " (%s.f%d %s)", s.name, i, f)
		}
		sb.WriteString("))")
		bodies = append(bodies, sb.String())
	}
	fmt.Fprintf(out, "(declare-datatypes (%s) (%s))\n", strings.Join(names, " "), strings.Join(bodies, " "))
	for _, d := range b.decls {
		out.WriteString(d)
		out.WriteString("\n")
	}
	if len(b.strLitList) > 1 {
		var ls []string
		for _, l := range b.strLitList {
			ls = append(ls, l.op)
		}
		sort.Strings(ls)
		fmt.Fprintf(out, "(assert (distinct %s))\n", strings.Join(ls, " "))
	}
}
