package main

import (
	"bytes"
	"fmt"
	"go/ast"
	"go/printer"
	"go/token"
	"go/types"
	"os"
	"sort"
	"strings"

	"golang.org/x/tools/go/packages"
	"golang.org/x/tools/go/ssa"
	"golang.org/x/tools/go/ssa/ssautil"
)

const modPath = "github.com/hneemann/parser2"

type loadCfg struct {
	nilChecks bool
}

// Loaded is the repository as the engine sees it: typed syntax, SSA, contracts.
type Loaded struct {
	repo       string
	pkgs       []*packages.Package
	prog       *ssa.Program
	contracts  *ContractSet
	cfg        loadCfg
	fileByPos  map[*token.File]*ast.File
	allFuncs   map[*ssa.Function]bool
	byKey      map[string][]*ssa.Function // pkgpath::Recv.Name -> functions (instantiations)
	srcCache   map[string][]byte
	tables     []*tableEntry
	stackNeeds map[stackNeedKey]stackNeed
}

func Load(repo string) (*Loaded, error) {
	cfg := &packages.Config{
		Mode:       packages.LoadAllSyntax,
		Dir:        repo,
		BuildFlags: []string{"-tags=verif"},
		Env:        append(os.Environ(), "GOFLAGS=-mod=mod", "GOPROXY=off"),
	}
	pkgs, err := packages.Load(cfg, "./...")
	if err != nil {
		return nil, err
	}
	var errs []string
	packages.Visit(pkgs, nil, func(p *packages.Package) {
		for _, e := range p.Errors {
			errs = append(errs, e.Error())
		}
	})
	if len(errs) > 0 {
		return nil, fmt.Errorf("package errors: %s", strings.Join(errs, "; "))
	}
	prog, _ := ssautil.AllPackages(pkgs, ssa.InstantiateGenerics|ssa.GlobalDebug)
	prog.Build()
	L := &Loaded{repo: repo, pkgs: pkgs, prog: prog, contracts: newContractSet(), fileByPos: map[*token.File]*ast.File{}, byKey: map[string][]*ssa.Function{}, srcCache: map[string][]byte{}}
	sort.Slice(L.pkgs, func(i, j int) bool { return L.pkgs[i].PkgPath < L.pkgs[j].PkgPath })
	for _, p := range L.pkgs {
		for _, f := range p.Syntax {
			tf := prog.Fset.File(f.Pos())
			L.fileByPos[tf] = f
			if strings.HasSuffix(tf.Name(), "verif_contracts.go") || strings.Contains(tf.Name(), "verif_contracts_") {
				var lines []string
				var nos []int
				for _, cg := range f.Comments {
					for _, c := range cg.List {
						if strings.HasPrefix(c.Text, "//@") {
							lines = append(lines, strings.TrimPrefix(c.Text, "//@"))
							nos = append(nos, prog.Fset.Position(c.Pos()).Line)
						}
					}
				}
				L.contracts.parseFile(p.PkgPath, tf.Name(), lines, nos)
			}
		}
	}
	L.allFuncs = ssautil.AllFunctions(prog)
	for f := range L.allFuncs {
		if f.Blocks == nil || f.Pkg == nil && f.Origin() == nil {
			continue
		}
		if f.Parent() != nil {
			continue
		}
		if f.Synthetic != "" && f.Origin() == nil {
			continue // wrappers, thunks, bound methods
		}
		k := funcKey(f)
		if k == "" {
			continue
		}
		L.byKey[k] = append(L.byKey[k], f)
	}
	for k := range L.byKey {
		fs := L.byKey[k]
		sort.Slice(fs, func(i, j int) bool { return fs[i].String() < fs[j].String() })
	}
	return L, nil
}

func funcPkgPath(f *ssa.Function) string {
	if f.Pkg != nil {
		return f.Pkg.Pkg.Path()
	}
	if o := f.Origin(); o != nil && o.Pkg != nil {
		return o.Pkg.Pkg.Path()
	}
	if f.Parent() != nil {
		return funcPkgPath(f.Parent())
	}
	return ""
}

func inRepo(f *ssa.Function) bool {
	return strings.HasPrefix(funcPkgPath(f), modPath)
}

func recvName(f *ssa.Function) string {
	r := f.Signature.Recv()
	if r == nil {
		return ""
	}
	t := r.Type()
	if p, ok := t.(*types.Pointer); ok {
		t = p.Elem()
	}
	if nt, ok := t.(*types.Named); ok {
		return nt.Obj().Name()
	}
	return ""
}

func baseName(f *ssa.Function) string {
	n := f.Name()
	if i := strings.Index(n, "["); i >= 0 {
		n = n[:i]
	}
	return n
}

// funcKey: pkgpath::Recv.Name (generic instantiations share the key of their origin).
func funcKey(f *ssa.Function) string {
	p := funcPkgPath(f)
	if p == "" {
		return ""
	}
	if r := recvName(f); r != "" {
		return p + "::" + r + "." + baseName(f)
	}
	return p + "::" + baseName(f)
}

// shortKey: Recv.Name without the package path; instantiations get a [T] suffix.
func shortFuncName(f *ssa.Function) string {
	p := strings.TrimPrefix(strings.TrimPrefix(funcPkgPath(f), modPath), "/")
	if p == "" {
		p = "parser2"
	}
	n := baseName(f)
	if r := recvName(f); r != "" {
		n = r + "." + n
	}
	if ta := f.TypeArgs(); len(ta) > 0 {
		var as []string
		for _, a := range ta {
			as = append(as, types.TypeString(a, func(p *types.Package) string { return p.Name() }))
		}
		n += "[" + strings.Join(as, ",") + "]"
	}
	return p + "." + n
}

func (L *Loaded) fileAt(pos token.Pos) *ast.File {
	return L.fileByPos[L.prog.Fset.File(pos)]
}

func (L *Loaded) nodeText(n ast.Node) string {
	var buf bytes.Buffer
	_ = printer.Fprint(&buf, L.prog.Fset, n)
	s := buf.String()
	s = strings.Join(strings.Fields(s), " ")
	return s
}

func (L *Loaded) typesPkg(path string) *types.Package {
	for _, p := range L.pkgs {
		if p.PkgPath == path {
			return p.Types
		}
	}
	var found *types.Package
	packages.Visit(L.pkgs, nil, func(p *packages.Package) {
		if p.PkgPath == path {
			found = p.Types
		}
	})
	return found
}

func (L *Loaded) globalFor(v *types.Var) *ssa.Global {
	if v.Pkg() == nil {
		return nil
	}
	p := L.prog.Package(v.Pkg())
	if p == nil {
		return nil
	}
	g, _ := p.Members[v.Name()].(*ssa.Global)
	return g
}

// funcsFor returns the SSA functions a contract block is about.
func (L *Loaded) funcsFor(c *FuncContract) []*ssa.Function {
	return L.byKey[c.pkg+"::"+c.key]
}

func (L *Loaded) contractOf(f *ssa.Function) *FuncContract {
	if f.Parent() != nil {
		return nil
	}
	return L.contracts.funcs[funcKey(f)]
}

// typeContract finds the contract attached to a named function type.
func (L *Loaded) typeContract(t types.Type) *FuncContract {
	n, ok := t.(*types.Named)
	if !ok || n.Obj().Pkg() == nil {
		return nil
	}
	return L.contracts.types[n.Obj().Pkg().Path()+"::"+n.Obj().Name()]
}

func (L *Loaded) ifaceContract(t types.Type, method string) *FuncContract {
	n, ok := t.(*types.Named)
	if !ok || n.Obj().Pkg() == nil {
		return nil
	}
	return L.contracts.ifaces[n.Obj().Pkg().Path()+"::"+n.Obj().Name()+"."+method]
}

func isLibraryType(t types.Type) bool {
	n, ok := t.(*types.Named)
	if !ok {
		return false
	}
	if n.Obj().Pkg() == nil {
		return true // error
	}
	return !strings.HasPrefix(n.Obj().Pkg().Path(), modPath)
}

// closureByAnchor finds the function literal of parent whose source contains the anchor text exactly once.
func (L *Loaded) anchorMatches(fn *ssa.Function, anchor string) bool {
	syn := fn.Syntax()
	if syn == nil {
		return false
	}
	return strings.Contains(L.nodeText(syn), strings.Join(strings.Fields(anchor), " "))
}

// typeInvsFor returns the type invariants / representation clauses declared for a named type.
func (L *Loaded) typeInvsFor(t types.Type) []typeInv {
	if p, ok := t.(*types.Pointer); ok {
		t = p.Elem()
	}
	n, ok := t.(*types.Named)
	if !ok || n.Obj().Pkg() == nil {
		return nil
	}
	return L.contracts.typeInvs[n.Obj().Pkg().Path()+"::"+n.Obj().Name()]
}

// implementations lists the repository's named types that implement the interface named by an interface-contract key.
func (L *Loaded) ifaceByKey(pkgPath, name string) (*types.Named, *types.Interface) {
	p := L.typesPkg(pkgPath)
	if p == nil {
		return nil, nil
	}
	obj, ok := p.Scope().Lookup(name).(*types.TypeName)
	if !ok {
		return nil, nil
	}
	n, ok := obj.Type().(*types.Named)
	if !ok {
		return nil, nil
	}
	it, ok := n.Underlying().(*types.Interface)
	if !ok {
		return nil, nil
	}
	return n, it
}

// instTypeArgs lists the distinct single type arguments generic functions of the program are instantiated with.
func (L *Loaded) instTypeArgs() []types.Type {
	seen := map[string]types.Type{}
	for f := range L.allFuncs {
		if ta := f.TypeArgs(); len(ta) == 1 {
			seen[types.TypeString(ta[0], nil)] = ta[0]
		}
	}
	var keys []string
	for k := range seen {
		keys = append(keys, k)
	}
	sort.Strings(keys)
	var out []types.Type
	for _, k := range keys {
		out = append(out, seen[k])
	}
	return out
}
