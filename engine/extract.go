package main

import (
	"fmt"
	"go/constant"
	"go/token"
	"go/types"
	"sort"
	"strings"

	"golang.org/x/tools/go/ssa"
)

// tableEntry is one function literal registered in a dispatch table of the repository: an operator implementation
// for a pair of operand types, a static function, a method of a value type, or a derived operator closure.
type tableEntry struct {
	kind             string // binop | unop | static | method | op
	table            string // short name of the top-level function that registers it (Equal, New, createListMethods, ...)
	name             string // "(Int,Float)" | "abs" | "map" | "!="
	fn               *ssa.Function
	t1, t2           types.Type // operand types (binop / unop)
	args             int        // declared number of arguments (static, method); -1 = variable
	argsMin, argsMax int        // VarArgs(min,max): bounds on the number of arguments (argsMax 0: none)
	recvType         types.Type // method receiver type
	site             *ssa.Function
	pos              token.Pos
}

func (t *tableEntry) unitName() string {
	p := strings.TrimPrefix(strings.TrimPrefix(funcPkgPath(t.site), modPath), "/")
	if p == "" {
		p = "parser2"
	}
	return fmt.Sprintf("%s.%s$%s%s", p, t.table, map[string]string{"binop": "", "unop": "", "static": "static:", "method": "method:", "op": "op:", "closure": ""}[t.kind], t.name)
}

// typeIdGlobals maps the package-level type-id variables of package value to the Go type whose GetType returns them.
func (L *Loaded) typeIdGlobals() map[*ssa.Global]types.Type {
	m := map[*ssa.Global]types.Type{}
	for f := range L.allFuncs {
		if f.Blocks == nil || baseName(f) != "GetType" || f.Signature.Recv() == nil || !inRepo(f) || len(f.Blocks) != 1 {
			continue
		}
		if f.Synthetic != "" {
			continue
		}
		ret, ok := f.Blocks[0].Instrs[len(f.Blocks[0].Instrs)-1].(*ssa.Return)
		if !ok || len(ret.Results) != 1 {
			continue
		}
		if u, ok := ret.Results[0].(*ssa.UnOp); ok && u.Op == token.MUL {
			if g, ok := u.X.(*ssa.Global); ok {
				m[g] = f.Signature.Recv().Type()
			}
		}
	}
	return m
}

func shortTypeName(t types.Type) string {
	if t == nil {
		return "?"
	}
	s := types.TypeString(t, func(p *types.Package) string { return "" })
	return strings.TrimPrefix(s, "*")
}

func unwrapFunc(v ssa.Value) *ssa.Function {
	for {
		switch x := v.(type) {
		case *ssa.Function:
			return x
		case *ssa.MakeClosure:
			return x.Fn.(*ssa.Function)
		case *ssa.ChangeType:
			v = x.X
		case *ssa.MakeInterface:
			v = x.X
		default:
			return nil
		}
	}
}

func constString(v ssa.Value) (string, bool) {
	if c, ok := v.(*ssa.Const); ok && c.Value != nil && c.Value.Kind() == constant.String {
		return constant.StringVal(c.Value), true
	}
	return "", false
}

func constInt(v ssa.Value) (int, bool) {
	if c, ok := v.(*ssa.Const); ok && c.Value != nil && c.Value.Kind() == constant.Int {
		i, ok := constant.Int64Val(c.Value)
		return int(i), ok
	}
	return 0, false
}

func topLevel(f *ssa.Function) *ssa.Function {
	for f.Parent() != nil {
		f = f.Parent()
	}
	return f
}

// functionLiteral traces a funcGen.Function[V] value back to its composite literal / MethodAtType call.
// It returns the function literal and the declared Args.
var varArgsBounds = map[*ssa.Function][2]int{}

func traceFunctionValue(v ssa.Value, depth int) (fn *ssa.Function, args int, recv types.Type, ok bool) {
	if depth > 8 {
		return nil, 0, nil, false
	}
	switch x := v.(type) {
	case *ssa.Call:
		c := x.Common()
		if callee := c.StaticCallee(); callee != nil {
			if baseName(callee) == "MethodAtType" && len(c.Args) == 2 {
				n, okn := constInt(c.Args[0])
				f := unwrapFunc(c.Args[1])
				if okn && f != nil {
					var rt types.Type
					if ta := callee.TypeArgs(); len(ta) == 1 {
						rt = ta[0]
					}
					return f, n, rt, true
				}
				return nil, 0, nil, false
			}
			// helper that builds and returns a Function value: follow its (single) return
			if (len(c.Args) == 0 || !isFunctionStruct(c.Args[0].Type())) && inRepo(callee) && callee.Blocks != nil {
				for _, b := range callee.Blocks {
					if ret, ok := b.Instrs[len(b.Instrs)-1].(*ssa.Return); ok && len(ret.Results) == 1 {
						return traceFunctionValue(ret.Results[0], depth+1)
					}
				}
				return nil, 0, nil, false
			}
			// chained builder methods: Function.SetDescription(f, ...), SetMethodDescription, VarArgs ...
			if len(c.Args) > 0 && isFunctionStruct(c.Args[0].Type()) {
				f, n, rt, ok := traceFunctionValue(c.Args[0], depth+1)
				if ok && (baseName(callee) == "VarArgs" || baseName(callee) == "VarArgsMethod") {
					n = -1
					if len(c.Args) == 3 {
						lo, ok1 := constInt(c.Args[1])
						hi, ok2 := constInt(c.Args[2])
						if ok1 && ok2 && f != nil {
							if baseName(callee) == "VarArgsMethod" {
								lo, hi = lo+1, hi+1
							}
							varArgsBounds[f] = [2]int{lo, hi}
						}
					}
				}
				return f, n, rt, ok
			}
		}
	case *ssa.UnOp:
		if x.Op == token.MUL {
			if a, ok := x.X.(*ssa.Alloc); ok {
				return traceFunctionAlloc(a)
			}
		}
	case *ssa.Phi:
	}
	return nil, 0, nil, false
}

func isFunctionStruct(t types.Type) bool {
	n, ok := t.(*types.Named)
	if !ok || n.Obj().Pkg() == nil {
		return false
	}
	return n.Obj().Name() == "Function" && strings.HasSuffix(n.Obj().Pkg().Path(), "/funcGen")
}

func traceFunctionAlloc(a *ssa.Alloc) (fn *ssa.Function, args int, recv types.Type, ok bool) {
	su, isStruct := a.Type().Underlying().(*types.Pointer).Elem().Underlying().(*types.Struct)
	if !isStruct {
		return nil, 0, nil, false
	}
	args = 0
	for _, ref := range *a.Referrers() {
		fa, ok := ref.(*ssa.FieldAddr)
		if !ok {
			continue
		}
		for _, r2 := range *fa.Referrers() {
			st, ok := r2.(*ssa.Store)
			if !ok || st.Addr != fa {
				continue
			}
			switch su.Field(fa.Field).Name() {
			case "Func":
				fn = unwrapFunc(st.Val)
				if fn == nil {
					// Func: helper() where the helper returns a function literal
					inner := st.Val
					for {
						if ct, ok := inner.(*ssa.ChangeType); ok {
							inner = ct.X
							continue
						}
						break
					}
					if call, ok := inner.(*ssa.Call); ok {
						if callee := call.Common().StaticCallee(); callee != nil && inRepo(callee) && callee.Blocks != nil {
							for _, b := range callee.Blocks {
								if ret, ok := b.Instrs[len(b.Instrs)-1].(*ssa.Return); ok && len(ret.Results) == 1 {
									fn = unwrapFunc(ret.Results[0])
								}
							}
						}
					}
				}
			case "Args":
				if n, ok := constInt(st.Val); ok {
					args = n
				} else {
					args = -2 // not a constant
				}
			}
		}
	}
	return fn, args, nil, fn != nil && args != -2
}

// extractTables walks the SSA of the repository and collects the registered function literals.
func (L *Loaded) extractTables() []*tableEntry {
	if L.tables != nil {
		return L.tables
	}
	ids := L.typeIdGlobals()
	typeOf := func(v ssa.Value) types.Type {
		if u, ok := v.(*ssa.UnOp); ok && u.Op == token.MUL {
			if g, ok := u.X.(*ssa.Global); ok {
				return ids[g]
			}
		}
		return nil
	}
	var out []*tableEntry
	var fns []*ssa.Function
	for f := range L.allFuncs {
		if f.Blocks != nil && inRepo(f) {
			fns = append(fns, f)
		}
	}
	sort.Slice(fns, func(i, j int) bool { return fns[i].String() < fns[j].String() })
	for _, f := range fns {
		if f.Synthetic != "" && f.Origin() == nil && f.Parent() == nil {
			continue
		}
		table := baseName(topLevel(f))
		if r := recvName(topLevel(f)); r != "" {
			table = r + "." + table
		}
		for _, b := range f.Blocks {
			for _, in := range b.Instrs {
				switch x := in.(type) {
				case *ssa.Call:
					c := x.Common()
					name := ""
					var args []ssa.Value
					if c.IsInvoke() {
						name = c.Method.Name()
						args = c.Args
					} else if callee := c.StaticCallee(); callee != nil {
						name = baseName(callee)
						args = c.Args
						if callee.Signature.Recv() != nil && len(args) > 0 {
							args = args[1:]
						}
					}
					switch name {
					case "Register":
						if len(args) == 3 {
							if fn := unwrapFunc(args[2]); fn != nil {
								t1, t2 := typeOf(args[0]), typeOf(args[1])
								if t1 != nil && t2 != nil {
									out = append(out, &tableEntry{kind: "binop", table: table, name: "(" + shortTypeName(t1) + "," + shortTypeName(t2) + ")", fn: fn, t1: t1, t2: t2, site: f, pos: x.Pos()})
								}
							}
						} else if len(args) == 2 {
							if fn := unwrapFunc(args[1]); fn != nil {
								if t1 := typeOf(args[0]); t1 != nil {
									out = append(out, &tableEntry{kind: "unop", table: table, name: "(" + shortTypeName(t1) + ")", fn: fn, t1: t1, site: f, pos: x.Pos()})
								}
							}
						}
					case "AddOp", "AddOpPure":
						if len(args) >= 3 {
							if opn, ok := constString(args[0]); ok {
								if fn := unwrapFunc(args[len(args)-1]); fn != nil {
									out = append(out, &tableEntry{kind: "op", table: table, name: opn, fn: fn, site: f, pos: x.Pos()})
								}
							}
						}
					case "AddStaticFunction":
						if len(args) == 2 {
							if sn, ok := constString(args[0]); ok {
								if fn, n, _, ok := traceFunctionValue(args[1], 0); ok {
									out = append(out, &tableEntry{kind: "static", table: table, name: sn, fn: fn, args: n, site: f, pos: x.Pos()})
								}
							}
						}
					}
				case *ssa.MapUpdate:
					if key, ok := constString(x.Key); ok && isFunctionStruct(x.Value.Type()) {
						if fn, n, rt, ok := traceFunctionValue(x.Value, 0); ok {
							out = append(out, &tableEntry{kind: "method", table: table, name: key, fn: fn, args: n, recvType: rt, site: f, pos: x.Pos()})
						}
					}
				}
			}
		}
	}
	for _, t := range out {
		if b, ok := varArgsBounds[t.fn]; ok && t.args < 0 {
			t.argsMin, t.argsMax = b[0], b[1]
		}
	}
	// unique, stable names
	seen := map[string]int{}
	for _, t := range out {
		n := t.unitName()
		seen[n]++
		if seen[n] > 1 {
			t.name = fmt.Sprintf("%s~%d", t.name, seen[n])
		}
	}
	L.tables = out
	return out
}
