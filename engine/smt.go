package main

import (
	"bufio"
	"bytes"
	"context"
	"fmt"
	"io"
	"os"
	"os/exec"
	"path/filepath"
	"strings"
	"sync"
	"time"
)

// Query is one proof obligation: assumptions[0:NAssume] |= Goal.
type Query struct {
	Name    string
	Kind    string // ensures, requires-at-call, index, div0, ...
	NAssume int
	Goal    *Term
	Vals    []NamedTerm // terms whose model values are wanted on failure
	Pos     string      // source position (informational only, never part of the name)
	Cover   bool        // cover query: expected SAT (reachability); Goal is the condition to reach
	Text    string      // clause text / operand text
	Label   string      // clause label
	Scope   int         // assumption scope the obligation belongs to (function literal verified at its creation site)
	Short   bool        // not claimed in the ledger: attempted with a short timeout on the primary solver only
}

type NamedTerm struct {
	Name string
	T    *Term
}

type QResult struct {
	Status  string // unsat | sat | unknown | timeout | error
	Solver  string // solver that decided
	TimeS   float64
	Model   map[string]string
	Detail  string // raw solver output for unknown/error
	Answers map[string]string
}

// Unit is everything needed to discharge the obligations of one function under verification.
type Unit struct {
	Name      string
	tb        *TB
	assumes   []*Term
	scopes    []int // per assumption (nil: all global)
	queries   []*Query
	timeoutMs int
	hints     []*Term // extra constraints used only when asking for a counterexample (make models replayable)
}

type solverSpec struct {
	name string
	bin  string
	args func(timeoutMs int, seed int) []string
}

var solverSpecs = map[string]solverSpec{
	"z3-new": {"z3-new", "z3-new", func(t, seed int) []string {
		return []string{"-in", fmt.Sprintf("-t:%d", t), fmt.Sprintf("smt.random_seed=%d", seed), fmt.Sprintf("sat.random_seed=%d", seed)}
	}},
	"z3": {"z3", "z3", func(t, seed int) []string {
		return []string{"-in", fmt.Sprintf("-t:%d", t), fmt.Sprintf("smt.random_seed=%d", seed), fmt.Sprintf("sat.random_seed=%d", seed)}
	}},
	"cvc5": {"cvc5", "cvc5", func(t, seed int) []string {
		return []string{"--incremental", "--lang=smt2", fmt.Sprintf("--tlimit-per=%d", t), fmt.Sprintf("--seed=%d", seed)}
	}},
}

func (u *Unit) header(solver string, models bool) string {
	var sb strings.Builder
	if models {
		sb.WriteString("(set-option :produce-models true)\n")
	}
	sb.WriteString("(set-logic ALL)\n")
	u.tb.Preamble(&sb)
	return sb.String()
}

// script builds an incremental script checking the given queries (indices into u.queries, ascending NAssume order).
func (u *Unit) script(solver string, idx []int, models bool) string {
	return u.scriptH(solver, idx, models, false)
}

func (u *Unit) scriptH(solver string, idx []int, models bool, hints bool) string {
	var sb strings.Builder
	sb.WriteString(u.header(solver, models))
	p := NewPrinter(&sb)
	for _, a := range u.tb.axioms {
		p.Assert(a)
	}
	nAsserted := 0
	inScope := 0
	var savedDefs map[int]string
	for _, qi := range idx {
		q := u.queries[qi]
		if inScope != 0 && q.Scope != inScope {
			sb.WriteString("(pop 1)\n")
			p.defined = savedDefs // definitions made inside the scope are gone
			inScope = 0
		}
		for nAsserted < q.NAssume {
			sc := 0
			if nAsserted < len(u.scopes) {
				sc = u.scopes[nAsserted]
			}
			if sc != 0 && sc != q.Scope {
				nAsserted++ // belongs to the body of another function literal
				continue
			}
			if sc != 0 && inScope != sc {
				if inScope != 0 {
					sb.WriteString("(pop 1)\n")
					p.defined = savedDefs
				}
				sb.WriteString("(push 1)\n")
				savedDefs = make(map[int]string, len(p.defined))
				for k, v := range p.defined {
					savedDefs[k] = v
				}
				inScope = sc
			}
			p.Assert(u.assumes[nAsserted])
			nAsserted++
		}
		var g string
		if q.Cover {
			g = p.ref(q.Goal)
		} else {
			g = p.ref(u.tb.Not(q.Goal))
		}
		var vals []string
		if models {
			for _, v := range q.Vals {
				vals = append(vals, p.ref(v.T))
			}
		}
		var hs []string
		if hints {
			for _, h := range u.hints {
				hs = append(hs, p.ref(h))
			}
		}
		sb.WriteString("(push 1)\n")
		for _, h := range hs {
			fmt.Fprintf(&sb, "(assert %s)\n", h)
		}
		isZ3 := strings.HasPrefix(solver, "z3")
		if q.Cover && isZ3 {
			sb.WriteString("(set-option :timeout 2000)\n")
		} else if q.Short && isZ3 {
			sb.WriteString("(set-option :timeout 3000)\n")
		}
		fmt.Fprintf(&sb, "(assert %s)\n(echo \"Q%d\")\n(check-sat)\n", g, qi)
		if (q.Cover || q.Short) && isZ3 {
			fmt.Fprintf(&sb, "(set-option :timeout %d)\n", u.timeoutMs)
		}
		if models && len(vals) > 0 {
			for i, v := range vals {
				fmt.Fprintf(&sb, "(echo \"V%d\")\n(get-value (%s))\n", i, v)
			}
		}
		sb.WriteString("(pop 1)\n")
	}
	return sb.String()
}

func runSolver(spec solverSpec, script string, timeoutMs, seed int, nq int) (string, float64) {
	total := time.Duration(timeoutMs*nq+5000) * time.Millisecond
	if total > 20*time.Minute {
		total = 20 * time.Minute
	}
	ctx, cancel := context.WithTimeout(context.Background(), total)
	defer cancel()
	cmd := exec.CommandContext(ctx, spec.bin, spec.args(timeoutMs, seed)...)
	cmd.Stdin = strings.NewReader(script)
	pr, pw := io.Pipe()
	cmd.Stdout = pw
	cmd.Stderr = pw
	t0 := time.Now()
	var out bytes.Buffer
	done := make(chan struct{})
	// the answers are read as they arrive so that the time of every single query is known: the marker Q<k> is echoed
	// right before (check-sat) of query k, the answer line follows when the solver has decided
	lastQ, lastT := -1, t0
	times := map[int]float64{}
	go func() {
		sc := bufio.NewScanner(pr)
		sc.Buffer(make([]byte, 1<<20), 1<<26)
		for sc.Scan() {
			line := sc.Text()
			out.WriteString(line)
			out.WriteByte('\n')
			l := strings.Trim(strings.TrimSpace(line), "\"")
			var k int
			if strings.HasPrefix(l, "Q") {
				if _, err := fmt.Sscanf(l, "Q%d", &k); err == nil && fmt.Sprintf("Q%d", k) == l {
					lastQ, lastT = k, time.Now()
					continue
				}
			}
			if lastQ >= 0 {
				if _, seen := times[lastQ]; !seen {
					times[lastQ] = time.Since(lastT).Seconds()
				}
			}
		}
		close(done)
	}()
	_ = cmd.Run()
	_ = pw.Close()
	<-done
	lastTimesMu.Lock()
	lastTimes[script] = times
	lastTimesMu.Unlock()
	return out.String(), time.Since(t0).Seconds()
}

// per-query solver times of the most recent run of a script (keyed by the script text, read once by the caller)
var (
	lastTimes   = map[string]map[int]float64{}
	lastTimesMu sync.Mutex
)

func takeTimes(script string) map[int]float64 {
	lastTimesMu.Lock()
	defer lastTimesMu.Unlock()
	t := lastTimes[script]
	delete(lastTimes, script)
	return t
}

// parse splits the output by the Q<k> echo markers.
func parseAnswers(out string) map[int][]string {
	res := map[int][]string{}
	cur := -1
	for _, line := range strings.Split(out, "\n") {
		line = strings.TrimSpace(line)
		l := strings.Trim(line, "\"")
		if strings.HasPrefix(l, "Q") {
			var k int
			if _, err := fmt.Sscanf(l, "Q%d", &k); err == nil && fmt.Sprintf("Q%d", k) == l {
				cur = k
				res[cur] = nil
				continue
			}
		}
		if cur >= 0 && line != "" {
			res[cur] = append(res[cur], line)
		}
	}
	return res
}

func statusOf(lines []string) (string, string) {
	if len(lines) == 0 {
		return "timeout", ""
	}
	switch lines[0] {
	case "sat", "unsat", "unknown", "timeout":
		st := lines[0]
		detail := ""
		if st == "unknown" {
			detail = strings.Join(lines[1:], "\n")
		}
		return st, detail
	}
	return "error", strings.Join(lines, "\n")
}

// Solve discharges all queries. Strategy: primary solver on the whole unit, then the others on what is left.
// In agree mode every solver sees every query and a single `sat` overrides any `unsat`.
func (u *Unit) Solve(order []string, timeoutMs, seed int, agree bool, dumpDir string) []QResult {
	n := len(u.queries)
	u.timeoutMs = timeoutMs
	results := make([]QResult, n)
	for i := range results {
		results[i].Status = "pending"
		results[i].Answers = map[string]string{}
	}
	if n == 0 {
		return results
	}
	all := make([]int, n)
	for i := range all {
		all[i] = i
	}
	todo := all
	for si, sname := range order {
		if len(todo) == 0 {
			break
		}
		spec := solverSpecs[sname]
		script := u.script(sname, todo, false)
		if dumpDir != "" {
			_ = os.MkdirAll(dumpDir, 0o755)
			_ = os.WriteFile(filepath.Join(dumpDir, sanitize(u.Name)+"."+sname+".smt2"), []byte(script), 0o644)
		}
		out, secs := runSolver(spec, script, timeoutMs, seed, len(todo))
		ans := parseAnswers(out)
		qtimes := takeTimes(script)
		var next []int
		for _, qi := range todo {
			per := secs / float64(len(todo))
			if t, ok := qtimes[qi]; ok {
				per = t
			}
			st, detail := statusOf(ans[qi])
			q := u.queries[qi]
			r := &results[qi]
			r.Answers[sname] = st
			want := "unsat"
			if q.Cover {
				want = "sat"
			}
			decided := st == "sat" || st == "unsat" || (q.Cover && (st == "unknown" || st == "timeout"))
			if r.Status == "pending" || (!isDecided(r.Status) && decided) {
				r.Status, r.Solver, r.TimeS, r.Detail = st, sname, per, detail
			} else if agree && decided && isDecided(r.Status) && r.Status != st {
				// disagreement: the answer that refutes the obligation wins
				if st != want {
					r.Status, r.Solver = st, sname
				}
				r.Detail += fmt.Sprintf(" [solver disagreement: %v]", r.Answers)
			}
			if (agree || !decided) && !q.Short {
				next = append(next, qi)
			}
		}
		if si == 0 && !agree {
			todo = next
		} else if agree {
			todo = all
		} else {
			todo = next
		}
	}
	// incompleteness of quantifier instantiation shows up as `unknown` that depends on incidental details of the input
	// (numbering of fresh constants): before an obligation counts as not discharged, the primary solver gets two more
	// attempts with other random seeds, each query alone in its own session
	nUndecided := 0
	for _, qi := range todo {
		if q := u.queries[qi]; !q.Short && !q.Cover && !isDecided(results[qi].Status) {
			nUndecided++
		}
	}
	if !agree && nUndecided <= 3 { // isolated unknowns only: a broken function fails many obligations at once
		for _, qi := range todo {
			q := u.queries[qi]
			if q.Short || q.Cover || isDecided(results[qi].Status) {
				continue
			}
			for _, sd := range []int{seed + 1, seed + 2} {
				script := u.script(order[0], []int{qi}, false)
				out, secs := runSolver(solverSpecs[order[0]], script, timeoutMs, sd, 1)
				st, detail := statusOf(parseAnswers(out)[qi])
				results[qi].Answers[fmt.Sprintf("%s/seed%d", order[0], sd)] = st
				if isDecided(st) {
					results[qi].Status, results[qi].Solver, results[qi].TimeS, results[qi].Detail = st, order[0], secs, detail
					break
				}
			}
		}
	}
	// models for refuted obligations
	for qi, r := range results {
		q := u.queries[qi]
		if q.Cover || r.Status != "sat" || len(q.Vals) == 0 {
			continue
		}
		script := u.scriptH("z3-new", []int{qi}, true, len(u.hints) > 0)
		out, _ := runSolver(solverSpecs["z3-new"], script, timeoutMs*2, seed, 1)
		if st, _ := statusOf(parseAnswers(out)[qi]); st != "sat" && len(u.hints) > 0 {
			script = u.scriptH("z3-new", []int{qi}, true, false)
			out, _ = runSolver(solverSpecs["z3-new"], script, timeoutMs*2, seed, 1)
		}
		results[qi].Model = parseModel(out, q.Vals)
		if dumpDir != "" {
			_ = os.WriteFile(filepath.Join(dumpDir, sanitize(u.Name)+fmt.Sprintf(".q%d.model.smt2", qi)), []byte(script), 0o644)
		}
	}
	return results
}

func isDecided(s string) bool { return s == "sat" || s == "unsat" }

func parseModel(out string, vals []NamedTerm) map[string]string {
	m := map[string]string{}
	lines := strings.Split(out, "\n")
	for i := 0; i < len(lines); i++ {
		l := strings.Trim(strings.TrimSpace(lines[i]), "\"")
		if strings.HasPrefix(l, "V") {
			var k int
			if _, err := fmt.Sscanf(l, "V%d", &k); err == nil && k < len(vals) {
				// value may span multiple lines: collect until parens balance
				var sb strings.Builder
				depth := 0
				started := false
				for j := i + 1; j < len(lines); j++ {
					sb.WriteString(strings.TrimSpace(lines[j]))
					sb.WriteString(" ")
					for _, c := range lines[j] {
						if c == '(' {
							depth++
							started = true
						} else if c == ')' {
							depth--
						}
					}
					if started && depth <= 0 {
						i = j
						break
					}
				}
				m[vals[k].Name] = extractValue(strings.TrimSpace(sb.String()))
			}
		}
	}
	return m
}

// extractValue turns "((term value))" into "value".
func extractValue(s string) string {
	s = strings.TrimSpace(s)
	if !strings.HasPrefix(s, "((") {
		return s
	}
	s = s[2 : len(s)-2]
	// skip the term: balanced s-expression or atom
	depth := 0
	for i, c := range s {
		switch c {
		case '(':
			depth++
		case ')':
			depth--
		case ' ':
			if depth == 0 {
				return strings.TrimSpace(s[i+1:])
			}
		}
	}
	return s
}
