package main

import (
	"fmt"
	"go/ast"
	"go/token"
	"go/types"
	"math/big"
	"strings"

	"golang.org/x/tools/go/ssa"
)

func (e *Enc) instr(fr *Frame, b *ssa.BasicBlock, in ssa.Instruction, st *State) {
	tb := e.tb
	switch x := in.(type) {
	case *ssa.DebugRef:
	case *ssa.RunDefers:
		e.flushGhost(fr, st)
		for i := len(fr.defers) - 1; i >= 0; i-- {
			e.runDeferred(fr, fr.defers[i], st)
		}
	case *ssa.Alloc:
		elem := x.Type().Underlying().(*types.Pointer).Elem()
		if arr, isArr := elem.Underlying().(*types.Array); isArr {
			r := e.newAlloc(arr.Elem(), true)
			// zero-initialised row
			reg := e.elemReg(arr.Elem())
			zrow := tb.mk("(as const "+arraySort("Int", e.sortOf(arr.Elem()))+")", arraySort("Int", e.sortOf(arr.Elem())), e.zero(arr.Elem()))
			e.setReg(st, reg, tb.Store(e.reg(st, reg), r, zrow))
			fr.vals[x] = Val{T: []*Term{r}}
			return
		}
		r := e.newAlloc(elem, false)
		a := &Addr{ref: r, root: elem}
		e.rootWrite(st, a, e.zero(elem))
		fr.vals[x] = Val{T: []*Term{r}}
	case *ssa.Store:
		a := e.val(fr, x.Addr)
		v := e.val(fr, x.Val)
		ad := e.addrOf(a, x.Val.Type())
		if ad.glob != nil {
			e.note("store to global " + ad.glob.Name())
			e.modelled("stores to package-level variables are not tracked")
			return
		}
		if a.Addr == nil {
			e.nilCheck(fr, st, a.t(), x.Pos(), x.Addr)
		}
		e.store(st, ad, v.t())
		e.markEscaped(v.t(), 0)
		if al, isAlloc := x.Addr.(*ssa.Alloc); isAlloc && e.onceCellsOf(fr.fn)[al] == x && len(v.T) == 1 {
			if e.onceVals == nil {
				e.onceVals = map[*Term]*Term{}
			}
			e.onceVals[a.t()] = v.t() // assigned here and never again: every later read yields this value
		}
		if e.yieldParam != nil && len(v.T) == 1 && v.T[0] == e.yieldParam {
			if e.yieldCells == nil {
				e.yieldCells = map[*Term]bool{}
			}
			e.yieldCells[a.t()] = true // the variable the callback parameter lives in (captured by literals)
		}
	case *ssa.UnOp:
		e.unop(fr, x, st)
	case *ssa.BinOp:
		e.binop(fr, x, st)
	case *ssa.FieldAddr:
		base := e.val(fr, x.X)
		styp := x.X.Type().Underlying().(*types.Pointer).Elem()
		if base.Addr == nil {
			e.nilCheck(fr, st, base.t(), x.Pos(), x.X)
		}
		a := e.addrOf(base, styp).extend(step{kind: stField, field: x.Field, cont: styp})
		fr.vals[x] = Val{T: []*Term{tb.Fresh("iptr", RefSort)}, Addr: a}
	case *ssa.Field:
		base := e.val(fr, x.X)
		s, _ := e.structOf(x.X.Type())
		fr.vals[x] = Val{T: []*Term{tb.Field(s, x.Field, base.t())}}
	case *ssa.IndexAddr:
		base := e.val(fr, x.X)
		idx := e.val(fr, x.Index).t()
		switch t := x.X.Type().Underlying().(type) {
		case *types.Slice:
			s := base.t()
			e.safetyObl(fr, st, "index", x.Pos(), isIndexExpr, tb.And(tb.Le(tb.Int(0), idx), tb.Lt(idx, tb.SLen(s))),
				NamedTerm{"index", idx}, NamedTerm{"len", tb.SLen(s)})
			fr.vals[x] = Val{T: []*Term{tb.Fresh("eptr", RefSort)}, Addr: &Addr{elem: true, ref: tb.SRef(s), idx: tb.Add(tb.SOff(s), idx), off: tb.SOff(s), rel: idx, root: t.Elem()}}
		case *types.Pointer: // pointer to array
			arr := t.Elem().Underlying().(*types.Array)
			e.safetyObl(fr, st, "index", x.Pos(), isIndexExpr, tb.And(tb.Le(tb.Int(0), idx), tb.Lt(idx, tb.Int(arr.Len()))), NamedTerm{"index", idx})
			if base.Addr != nil {
				// array inside a struct / cell
				fr.vals[x] = Val{T: []*Term{tb.Fresh("aptr", RefSort)}, Addr: base.Addr.extend(step{kind: stIndex, idx: idx, cont: t.Elem()})}
			} else {
				fr.vals[x] = Val{T: []*Term{tb.Fresh("eptr", RefSort)}, Addr: &Addr{elem: true, ref: base.t(), idx: idx, root: arr.Elem()}}
			}
		default:
			e.note("IndexAddr on " + x.X.Type().String())
			fr.vals[x] = Val{T: []*Term{e.fresh("idxaddr", x.Type())}}
		}
	case *ssa.Index:
		base := e.val(fr, x.X)
		idx := e.val(fr, x.Index).t()
		switch t := x.X.Type().Underlying().(type) {
		case *types.Array:
			e.safetyObl(fr, st, "index", x.Pos(), isIndexExpr, tb.And(tb.Le(tb.Int(0), idx), tb.Lt(idx, tb.Int(t.Len()))), NamedTerm{"index", idx})
			fr.vals[x] = Val{T: []*Term{tb.Select(base.t(), idx)}}
		case *types.Basic: // string
			e.safetyObl(fr, st, "index", x.Pos(), isIndexExpr, tb.And(tb.Le(tb.Int(0), idx), tb.Lt(idx, tb.StrLen(base.t()))), NamedTerm{"index", idx}, NamedTerm{"len", tb.StrLen(base.t())})
			c := tb.Func("str.at", []string{"Str", "Int"}, "Int", base.t(), idx)
			e.assume(tb.True(), tb.And(tb.Le(tb.Int(0), c), tb.Lt(c, tb.Int(256))))
			fr.vals[x] = Val{T: []*Term{c}}
		default:
			e.note("Index on " + x.X.Type().String())
			fr.vals[x] = Val{T: []*Term{e.fresh("idx", x.Type())}}
		}
	case *ssa.Slice:
		e.slice(fr, x, st)
	case *ssa.Phi:
	case *ssa.Extract:
		t := e.val(fr, x.Tuple)
		if x.Index < len(t.T) {
			fr.vals[x] = Val{T: []*Term{t.T[x.Index]}}
		} else {
			fr.vals[x] = Val{T: []*Term{e.fresh("ext", x.Type())}}
		}
	case *ssa.Convert:
		e.convert(fr, x, st)
	case *ssa.ChangeType:
		fr.vals[x] = e.val(fr, x.X)
	case *ssa.ChangeInterface:
		fr.vals[x] = e.val(fr, x.X)
	case *ssa.SliceToArrayPointer, *ssa.MultiConvert:
		e.note(fmt.Sprintf("unsupported %T", in))
		fr.vals[x.(ssa.Value)] = Val{T: []*Term{e.fresh("unsup", x.(ssa.Value).Type())}}
	case *ssa.MakeInterface:
		pv := e.val(fr, x.X).t()
		fr.vals[x] = Val{T: []*Term{tb.Box(e.typeKey(x.X.Type()), e.sortOf(x.X.Type()), pv)}}
		e.applyTypeInvs(fr, st, x.X.Type(), pv, "box", tb.True(), x.Pos())
	case *ssa.TypeAssert:
		e.typeAssert(fr, x, st)
	case *ssa.MakeSlice:
		et := x.Type().Underlying().(*types.Slice).Elem()
		r := e.newAlloc(et, true)
		l := e.val(fr, x.Len).t()
		c := e.val(fr, x.Cap).t()
		e.safetyObl(fr, st, "makeslice", x.Pos(), isCallExpr, tb.And(tb.Le(tb.Int(0), l), tb.Le(l, c)), NamedTerm{"len", l})
		reg := e.elemReg(et)
		zrow := tb.mk("(as const "+arraySort("Int", e.sortOf(et))+")", arraySort("Int", e.sortOf(et)), e.zero(et))
		e.setReg(st, reg, tb.Store(e.reg(st, reg), r, zrow))
		fr.vals[x] = Val{T: []*Term{tb.MkSlice(r, tb.Int(0), l, c)}}
	case *ssa.MakeMap:
		r := e.newAlloc(x.Type(), false)
		e.mapInit(st, x.Type(), r)
		fr.vals[x] = Val{T: []*Term{r}}
	case *ssa.MakeChan:
		fr.vals[x] = Val{T: []*Term{e.newAlloc(x.Type(), false)}}
	case *ssa.MakeClosure:
		e.makeClosure(fr, x, st)
	case *ssa.Lookup:
		e.lookup(fr, x, st)
	case *ssa.MapUpdate:
		e.mapUpdate(fr, x, st)
	case *ssa.Range:
		fr.vals[x] = Val{T: []*Term{e.val(fr, x.X).t()}}
		fr.rangeCount[x] = tb.Int(0)
	case *ssa.Next:
		e.next(fr, x, st)
	case *ssa.Call:
		e.flushGhost(fr, st)
		e.midAsserts(fr, x, st)
		e.call(fr, x, st)
		e.ghostSets(fr, x, st)
	case *ssa.Go:
		e.note("go statement ignored")
		e.modelled("goroutines started by the function are not modelled")
	case *ssa.Defer:
		var dargs []Val
		for _, a := range x.Call.Args {
			dargs = append(dargs, e.val(fr, a))
		}
		fr.defers = append(fr.defers, deferred{d: x, args: dargs, guard: st.reach})
	case *ssa.Send:
		e.note("channel send ignored")
	case *ssa.Select:
		e.note("select havoc")
		tup := x.Type().(*types.Tuple)
		var ts []*Term
		for i := 0; i < tup.Len(); i++ {
			ts = append(ts, e.fresh("sel", tup.At(i).Type()))
		}
		fr.vals[x] = Val{T: ts}
	case *ssa.If:
		e.flushGhost(fr, st)
		c := e.val(fr, x.Cond).t()
		fr.edge[[2]*ssa.BasicBlock{b, b.Succs[0]}] = tb.And(st.reach, c)
		fr.edge[[2]*ssa.BasicBlock{b, b.Succs[1]}] = tb.And(st.reach, tb.Not(c))
		for i, s := range b.Succs {
			if isBackEdge(b, s) {
				s2 := st.clone()
				s2.reach = fr.edge[[2]*ssa.BasicBlock{b, b.Succs[i]}]
				e.backEdgeCheck(fr, b, s, s2)
			}
		}
	case *ssa.Jump:
		e.flushGhost(fr, st)
		if isBackEdge(b, b.Succs[0]) {
			e.backEdgeCheck(fr, b, b.Succs[0], *st)
		}
	case *ssa.Return:
		e.flushGhost(fr, st)
		if fr.con != nil && fr.parent == nil {
			for _, gs := range fr.con.ghostReturn {
				env := e.envAt(fr, st, nil)
				e.ghostAssign(fr, st, env, gs)
			}
		}
		var vals []*Term
		for _, r := range x.Results {
			vals = append(vals, e.val(fr, r).t())
		}
		fr.rets = append(fr.rets, retInfo{st: st.clone(), vals: vals, pos: x.Pos()})
	case *ssa.Panic:
		label := "panic"
		if mi, ok := x.X.(*ssa.MakeInterface); ok {
			if c, ok := mi.X.(*ssa.Const); ok && c.Value != nil {
				label = "panic " + c.Value.ExactString()
			}
		}
		if strings.Contains(label, "iterator call did not preserve panic") || strings.Contains(label, "range function continued iteration") || strings.Contains(label, "yield function called after range loop exit") {
			// compiler-generated guards of the range-over-func lowering: they fire only if the iterator function
			// violates the iteration protocol
			e.modelled("iterator functions obey the range-over-func protocol (compiler-inserted protocol panics not checked)")
			fr.panics = append(fr.panics, st.reach)
			return
		}
		if e.safety {
			e.oblige("panic", label, st, tb.False(), x.Pos(), e.inputVals()...)
		}
		fr.panics = append(fr.panics, st.reach)
	default:
		e.note(fmt.Sprintf("unsupported %T", in))
		if v, ok := in.(ssa.Value); ok {
			fr.vals[v] = Val{T: []*Term{e.fresh("unsup", v.Type())}}
		}
	}
}

func isIndexExpr(n ast.Node) bool { _, ok := n.(*ast.IndexExpr); return ok }
func isSliceExpr(n ast.Node) bool { _, ok := n.(*ast.SliceExpr); return ok }
func isCallExpr(n ast.Node) bool  { _, ok := n.(*ast.CallExpr); return ok }
func isBinaryExpr(n ast.Node) bool {
	switch n.(type) {
	case *ast.BinaryExpr, *ast.AssignStmt:
		return true
	}
	return false
}
func isTypeAssertExpr(n ast.Node) bool { _, ok := n.(*ast.TypeAssertExpr); return ok }
func isAnyExpr(n ast.Node) bool        { _, ok := n.(ast.Expr); return ok }

// safetyObl records a K2 obligation named by the source text of the operation.
func (e *Enc) safetyObl(fr *Frame, st *State, kind string, pos token.Pos, want func(ast.Node) bool, cond *Term, vals ...NamedTerm) {
	if !e.safety {
		return
	}
	label := e.srcText(fr.fn, pos, want)
	if len(label) > 60 {
		label = label[:60]
	}
	q := e.oblige(kind, label, st, cond, pos, append(vals, e.inputVals()...)...)
	_ = q
}

func (e *Enc) nilCheck(fr *Frame, st *State, ref *Term, pos token.Pos, v ssa.Value) {
	if !e.safety || !e.L.cfg.nilChecks {
		return
	}
	if n, ok := ref.intLit(); ok && n.Sign() != 0 {
		return
	}
	switch v.(type) {
	case *ssa.Parameter, *ssa.FreeVar, *ssa.Alloc, *ssa.Global:
		return // receivers and parameters are assumed non-nil by contract (type invariant of the API)
	}
	e.safetyObl(fr, st, "nilderef", pos, isAnyExpr, e.tb.Not(e.tb.Eq(ref, e.tb.Int(0))))
}

func (e *Enc) typeKey(t types.Type) string {
	// interface boxing is keyed by the dynamic type; named types by their full name, others by string
	return types.TypeString(t, nil)
}

func (e *Enc) unop(fr *Frame, x *ssa.UnOp, st *State) {
	tb := e.tb
	v := e.val(fr, x.X)
	switch x.Op {
	case token.MUL:
		a := e.addrOf(v, x.Type())
		if a.glob != nil {
			fr.vals[x] = Val{T: []*Term{e.globalRead(a.glob, x.Type())}}
			return
		}
		if v.Addr == nil {
			e.nilCheck(fr, st, v.t(), x.Pos(), x.X)
		}
		t := e.load(st, a)
		if ov, ok := e.onceVals[v.t()]; ok && len(v.T) == 1 && ov.sort == t.sort {
			t = ov
		}
		if t.sort != e.sortOf(x.Type()) {
			panic(fmt.Sprintf("load sort mismatch in %s: %s vs %s at %s", fr.fn, t.sort, e.sortOf(x.Type()), e.prog.Fset.Position(x.Pos())))
		}
		e.assumeWF(st.reach, x.Type(), t)
		fr.vals[x] = Val{T: []*Term{t}}
	case token.NOT:
		fr.vals[x] = Val{T: []*Term{tb.Not(v.t())}}
	case token.SUB:
		fr.vals[x] = Val{T: []*Term{tb.Neg(v.t())}}
	case token.ARROW:
		e.recv(fr, x, st)
	default:
		if x.Type() != nil {
			if tup, ok := x.Type().(*types.Tuple); ok {
				var ts []*Term
				for i := 0; i < tup.Len(); i++ {
					ts = append(ts, e.fresh("unop", tup.At(i).Type()))
				}
				fr.vals[x] = Val{T: ts}
				return
			}
		}
		e.note("unop " + x.Op.String())
		fr.vals[x] = Val{T: []*Term{e.fresh("unop", x.Type())}}
	}
}

// chanContractFor finds the `channel T.f` block for a receive from a channel loaded from field f of a *T.
func (e *Enc) chanContractFor(x *ssa.UnOp) (*FuncContract, ssa.Value) {
	ld, ok := x.X.(*ssa.UnOp)
	if !ok || ld.Op != token.MUL {
		return nil, nil
	}
	fa, ok := ld.X.(*ssa.FieldAddr)
	if !ok {
		return nil, nil
	}
	pt, ok := fa.X.Type().Underlying().(*types.Pointer)
	if !ok {
		return nil, nil
	}
	n, ok := pt.Elem().(*types.Named)
	if !ok || n.Obj().Pkg() == nil {
		return nil, nil
	}
	su := n.Underlying().(*types.Struct)
	key := n.Obj().Pkg().Path() + "::channel:" + n.Obj().Name() + "." + su.Field(fa.Field).Name()
	return e.L.contracts.funcs[key], fa.X
}

func (e *Enc) recv(fr *Frame, x *ssa.UnOp, st *State) {
	if cc, base := e.chanContractFor(x); cc != nil && cc.chanValue.expr != nil && cc.chanOK.expr != nil {
		bv := e.val(fr, base)
		env := &evalEnv{e: e, st: st, old: st, vars: map[string]SV{"self": {t: bv.t(), typ: base.Type(), addr: bv.Addr}}, bound: map[string]SV{}, pkg: e.L.typesPkg(cc.pkg)}
		v, err1 := env.evalAny(cc.chanValue.expr)
		okT, err2 := env.evalBool(cc.chanOK.expr)
		if err1 == nil && err2 == nil {
			cc.used = true
			var vt types.Type
			if x.CommaOk {
				vt = x.Type().(*types.Tuple).At(0).Type()
			} else {
				vt = x.Type()
			}
			val := e.tb.Ite(okT, v.t, e.zero(vt))
			// effects apply when a value was received
			after := st.clone()
			for _, gs := range cc.chanEffects {
				e.ghostAssign(fr, &after, env, gs)
			}
			for name, nv := range after.heap {
				if strings.HasPrefix(name, "G:") {
					r := e.regs[name]
					e.setReg(st, r, e.tb.Ite(okT, nv, e.reg(st, r)))
				}
			}
			if x.CommaOk {
				fr.vals[x] = Val{T: []*Term{val, okT}}
			} else {
				fr.vals[x] = Val{T: []*Term{val}}
			}
			e.modelled("channel " + cc.key + ": receives follow the ghost protocol of its `channel` block (trusted)")
			return
		}
		e.contractError(fr, "channel:"+cc.key, fmt.Errorf("%v %v", err1, err2))
	}
	e.note("channel receive: unconstrained value")
	e.modelled("channel receive yields an unconstrained value")
	if x.CommaOk {
		tup := x.Type().(*types.Tuple)
		fr.vals[x] = Val{T: []*Term{e.fresh("recv", tup.At(0).Type()), e.tb.Fresh("recv_ok", "Bool")}}
	} else {
		fr.vals[x] = Val{T: []*Term{e.fresh("recv", x.Type())}}
	}
}

// globalRead: package-level variables are unknown but stable within a unit (same constant each read).
func (e *Enc) globalRead(g *ssa.Global, t types.Type) *Term {
	c := e.tb.Const("gval_"+g.Pkg.Pkg.Name()+"."+g.Name(), e.sortOf(t))
	first := !e.wfDone[c.id]
	e.assumeWF(e.tb.True(), t, c)
	e.modelled("package-level variables are constant during a call")
	if first {
		e.globalInitFacts(g, t, c)
	}
	return c
}

func (e *Enc) binop(fr *Frame, x *ssa.BinOp, st *State) {
	tb := e.tb
	a, b := e.val(fr, x.X).t(), e.val(fr, x.Y).t()
	srt := e.sortOf(x.X.Type())
	var t *Term
	switch x.Op {
	case token.ADD:
		if srt == "Str" {
			t = tb.Func("str.cat", []string{"Str", "Str"}, "Str", a, b)
			e.assume(tb.True(), tb.Eq(tb.StrLen(t), tb.Add(tb.StrLen(a), tb.StrLen(b))))
		} else {
			t = tb.Add(a, b)
			e.intArith(x)
		}
	case token.SUB:
		t = tb.Sub(a, b)
		e.intArith(x)
	case token.MUL:
		t = tb.Mul(a, b)
		e.intArith(x)
	case token.QUO:
		if srt == "Int" {
			e.safetyObl(fr, st, "div0", x.Pos(), isBinaryExpr, tb.Not(tb.Eq(b, tb.Int(0))), NamedTerm{"divisor", b})
			t = tb.IntDiv(a, b)
		} else {
			t = tb.RealDiv(a, b)
		}
	case token.REM:
		e.safetyObl(fr, st, "div0", x.Pos(), isBinaryExpr, tb.Not(tb.Eq(b, tb.Int(0))), NamedTerm{"divisor", b})
		t = tb.IntRem(a, b)
	case token.EQL:
		t = e.eqVals(x.X.Type(), a, b, fr, st, x)
	case token.NEQ:
		t = tb.Not(e.eqVals(x.X.Type(), a, b, fr, st, x))
	case token.LSS, token.LEQ, token.GTR, token.GEQ:
		if srt == "Int" || srt == "Real" {
			switch x.Op {
			case token.LSS:
				t = tb.Lt(a, b)
			case token.LEQ:
				t = tb.Le(a, b)
			case token.GTR:
				t = tb.Gt(a, b)
			default:
				t = tb.Ge(a, b)
			}
		} else { // strings: an uninterpreted strict total order
			lt := func(p, q *Term) *Term { return tb.Func("str.lt", []string{"Str", "Str"}, "Bool", p, q) }
			e.strOrderAxioms()
			switch x.Op {
			case token.LSS:
				t = lt(a, b)
			case token.LEQ:
				t = tb.Not(lt(b, a))
			case token.GTR:
				t = lt(b, a)
			default:
				t = tb.Not(lt(a, b))
			}
		}
	case token.SHL, token.SHR:
		// shift count of signed type must not be negative
		if bt, ok := x.Y.Type().Underlying().(*types.Basic); ok && bt.Info()&types.IsUnsigned == 0 {
			e.safetyObl(fr, st, "shift", x.Pos(), isBinaryExpr, tb.Ge(b, tb.Int(0)), NamedTerm{"count", b})
		}
		t = e.fresh("shift", x.Type())
		if c, ok := b.intLit(); ok && c.IsInt64() && c.Int64() >= 0 && c.Int64() < 62 {
			p := tb.BigInt(new(big.Int).Lsh(big.NewInt(1), uint(c.Int64())))
			if x.Op == token.SHL {
				t = tb.Mul(a, p)
			} else {
				t = tb.mk("div", "Int", a, p)
			}
		}
	case token.AND, token.OR, token.XOR, token.AND_NOT:
		if srt == "Bool" {
			switch x.Op {
			case token.AND:
				t = tb.And(a, b)
			case token.OR:
				t = tb.Or(a, b)
			default:
				t = tb.Not(tb.Eq(a, b))
			}
		} else {
			t = e.fresh("bitop", x.Type())
			if x.Op == token.AND {
				// x & mask with a non-negative constant mask lies in [0, mask]
				if c, ok := b.intLit(); ok && c.Sign() >= 0 {
					e.assume(tb.True(), tb.And(tb.Le(tb.Int(0), t), tb.Le(t, b)))
				}
			}
			e.modelled("bitwise integer operations are uninterpreted")
		}
	default:
		e.note("binop " + x.Op.String())
		t = e.fresh("binop", x.Type())
	}
	fr.vals[x] = Val{T: []*Term{t}}
}

func (e *Enc) intArith(x *ssa.BinOp) {
	if b, ok := x.Type().Underlying().(*types.Basic); ok && b.Info()&types.IsInteger != 0 {
		e.modelled("machine integer arithmetic treated as mathematical (no wrap-around)")
	} else if ok && b.Info()&types.IsFloat != 0 {
		e.modelled("float64 arithmetic treated as real arithmetic (no rounding, no NaN/Inf)")
	}
}

var strAxiomsDone = map[*TB]bool{}

func (e *Enc) strOrderAxioms() {
	tb := e.tb
	if tb.declSet["str.lt.axioms"] {
		return
	}
	tb.declSet["str.lt.axioms"] = true
	x, y, z := tb.BoundVar("sx", "Str"), tb.BoundVar("sy", "Str"), tb.BoundVar("sz", "Str")
	lt := func(p, q *Term) *Term { return tb.Func("str.lt", []string{"Str", "Str"}, "Bool", p, q) }
	tb.axioms = append(tb.axioms,
		tb.Forall([]*Term{x}, tb.Not(lt(x, x))),
		tb.Forall([]*Term{x, y, z}, tb.Imp(tb.And(lt(x, y), lt(y, z)), lt(x, z))),
		tb.Forall([]*Term{x, y}, tb.Or(lt(x, y), lt(y, x), tb.Eq(x, y))))
	e.modelled("Go's string < is a strict total order (trusted)")
}

// eqVals implements Go's == on a type.
func (e *Enc) eqVals(t types.Type, a, b *Term, fr *Frame, st *State, x *ssa.BinOp) *Term {
	tb := e.tb
	if a.sort == "Str" {
		return e.strEq(a, b)
	}
	if _, ok := t.Underlying().(*types.Interface); ok {
		// comparing interfaces holding incomparable dynamic types panics; comparison with nil is safe
		if a.op != "nilIface" && b.op != "nilIface" {
			e.modelled("interface == compares boxed values structurally; incomparable dynamic types not checked")
		}
	}
	return tb.Eq(a, b)
}

func (e *Enc) slice(fr *Frame, x *ssa.Slice, st *State) {
	tb := e.tb
	base := e.val(fr, x.X)
	get := func(v ssa.Value, def *Term) *Term {
		if v == nil {
			return def
		}
		return e.val(fr, v).t()
	}
	switch t := x.X.Type().Underlying().(type) {
	case *types.Slice:
		s := base.t()
		lo := get(x.Low, tb.Int(0))
		hi := get(x.High, tb.SLen(s))
		mx := get(x.Max, tb.SCap(s))
		e.safetyObl(fr, st, "slice", x.Pos(), isSliceExpr, tb.And(tb.Le(tb.Int(0), lo), tb.Le(lo, hi), tb.Le(hi, mx), tb.Le(mx, tb.SCap(s))),
			NamedTerm{"lo", lo}, NamedTerm{"hi", hi}, NamedTerm{"cap", tb.SCap(s)})
		fr.vals[x] = Val{T: []*Term{tb.MkSlice(tb.SRef(s), tb.Add(tb.SOff(s), lo), tb.Sub(hi, lo), tb.Sub(mx, lo))}}
	case *types.Pointer:
		n := tb.Int(t.Elem().Underlying().(*types.Array).Len())
		lo := get(x.Low, tb.Int(0))
		hi := get(x.High, n)
		mx := get(x.Max, n)
		e.safetyObl(fr, st, "slice", x.Pos(), isSliceExpr, tb.And(tb.Le(tb.Int(0), lo), tb.Le(lo, hi), tb.Le(hi, mx), tb.Le(mx, n)))
		if base.Addr != nil {
			e.note("slicing an array inside a struct: contents not tracked")
			fr.vals[x] = Val{T: []*Term{e.fresh("arrslice", x.Type())}}
			return
		}
		fr.vals[x] = Val{T: []*Term{tb.MkSlice(base.t(), lo, tb.Sub(hi, lo), tb.Sub(mx, lo))}}
	case *types.Basic: // string
		s := base.t()
		lo := get(x.Low, tb.Int(0))
		hi := get(x.High, tb.StrLen(s))
		e.safetyObl(fr, st, "slice", x.Pos(), isSliceExpr, tb.And(tb.Le(tb.Int(0), lo), tb.Le(lo, hi), tb.Le(hi, tb.StrLen(s))),
			NamedTerm{"lo", lo}, NamedTerm{"hi", hi}, NamedTerm{"len", tb.StrLen(s)})
		r := tb.Func("str.sub", []string{"Str", "Int", "Int"}, "Str", s, lo, hi)
		e.assume(tb.True(), tb.Imp(tb.And(tb.Le(tb.Int(0), lo), tb.Le(lo, hi)), tb.Eq(tb.StrLen(r), tb.Sub(hi, lo))))
		fr.vals[x] = Val{T: []*Term{r}}
	default:
		fr.vals[x] = Val{T: []*Term{e.fresh("slice", x.Type())}}
	}
}

func (e *Enc) convert(fr *Frame, x *ssa.Convert, st *State) {
	tb := e.tb
	v := e.val(fr, x.X)
	from, to := x.X.Type().Underlying(), x.Type().Underlying()
	fs, ts := e.sortOf(x.X.Type()), e.sortOf(x.Type())
	fb, fok := from.(*types.Basic)
	tbb, tok := to.(*types.Basic)
	switch {
	case fs == "Int" && ts == "Int" && fok && tok:
		flo, fhi, ok1 := intRange(fb)
		tlo, thi, ok2 := intRange(tbb)
		if ok1 && ok2 && tlo.Cmp(flo) <= 0 && fhi.Cmp(thi) <= 0 {
			fr.vals[x] = Val{T: v.T} // widening
			return
		}
		if ok2 {
			// narrowing / sign change: identity when the value fits, otherwise unconstrained
			r := e.fresh("conv", x.Type())
			in := tb.And(tb.Le(tb.BigInt(tlo), v.t()), tb.Lt(v.t(), tb.BigInt(thi)))
			e.assume(tb.True(), tb.Imp(in, tb.Eq(r, v.t())))
			fr.vals[x] = Val{T: []*Term{r}}
			return
		}
		fr.vals[x] = Val{T: v.T}
	case fs == ts && fs != "Str" && fs != "Slice":
		fr.vals[x] = Val{T: v.T}
	case fs == "Int" && ts == "Real":
		fr.vals[x] = Val{T: []*Term{tb.ToReal(v.t())}}
	case fs == "Real" && ts == "Int":
		// Go: truncation toward zero; the result is implementation-specific when it does not fit
		xr := v.t()
		trunc := tb.Ite(tb.Ge(xr, tb.Real(new(big.Rat))), tb.ToInt(xr), tb.Neg(tb.ToInt(tb.Neg(xr))))
		lo, hi, _ := intRange(tbb)
		inRange := tb.And(tb.Lt(tb.Real(new(big.Rat).SetInt(new(big.Int).Sub(lo, big.NewInt(1)))), xr), tb.Lt(xr, tb.Real(new(big.Rat).SetInt(hi))))
		und := tb.Func("f2i_undef", []string{"Real"}, "Int", xr)
		e.assumeWF(tb.True(), x.Type(), und)
		// replay hint: on amd64 an out-of-range conversion yields the most negative value
		e.hints = append(e.hints, tb.Eq(und, tb.BigInt(lo)))
		fr.vals[x] = Val{T: []*Term{tb.Ite(inRange, trunc, und)}}
		e.modelled("float64->int conversion: truncation inside the target range, unspecified outside")
	case fs == "Str" && ts == "Str":
		fr.vals[x] = Val{T: v.T}
	case fs == "Int" && ts == "Str": // string(rune)
		r := tb.Func("str.ofrune", []string{"Int"}, "Str", v.t())
		e.assume(tb.True(), tb.And(tb.Le(tb.Int(1), tb.StrLen(r)), tb.Le(tb.StrLen(r), tb.Int(4))))
		fr.vals[x] = Val{T: []*Term{r}}
	case fs == "Slice" && ts == "Str": // string([]byte) / string([]rune)
		r := e.fresh("str_of_slice", x.Type())
		if sl, ok := from.(*types.Slice); ok {
			if eb, ok := sl.Elem().Underlying().(*types.Basic); ok && eb.Kind() == types.Uint8 {
				e.assume(tb.True(), tb.Eq(tb.StrLen(r), tb.SLen(v.t())))
			}
		}
		fr.vals[x] = Val{T: []*Term{r}}
	case fs == "Str" && ts == "Slice": // []byte(s) / []rune(s)
		sl := to.(*types.Slice)
		ref := e.newAlloc(sl.Elem(), true)
		n := tb.Fresh("convlen", "Int")
		if eb, ok := sl.Elem().Underlying().(*types.Basic); ok && eb.Kind() == types.Uint8 {
			e.assume(tb.True(), tb.Eq(n, tb.StrLen(v.t())))
		} else {
			e.assume(tb.True(), tb.And(tb.Le(tb.Int(0), n), tb.Le(n, tb.StrLen(v.t()))))
		}
		reg := e.elemReg(sl.Elem())
		e.setReg(st, reg, tb.Store(e.reg(st, reg), ref, tb.Fresh("convrow", arraySort("Int", e.sortOf(sl.Elem())))))
		fr.vals[x] = Val{T: []*Term{tb.MkSlice(ref, tb.Int(0), n, n)}}
	case fs == "Slice" && ts == "Slice":
		fr.vals[x] = Val{T: v.T}
	default:
		e.note("convert " + fs + "->" + ts)
		fr.vals[x] = Val{T: []*Term{e.fresh("conv", x.Type())}}
	}
}

func (e *Enc) typeAssert(fr *Frame, x *ssa.TypeAssert, st *State) {
	tb := e.tb
	xv := e.val(fr, x.X).t()
	if _, isIface := x.AssertedType.Underlying().(*types.Interface); isIface {
		// assertion to an interface type: succeeds iff non-nil and the dynamic type implements it
		ok := e.implementsTerm(xv, x.AssertedType)
		if x.CommaOk {
			fr.vals[x] = Val{T: []*Term{tb.Ite(ok, xv, tb.NilIface()), ok}}
		} else {
			e.safetyObl(fr, st, "typeassert", x.Pos(), isTypeAssertExpr, ok)
			fr.vals[x] = Val{T: []*Term{xv}}
		}
		return
	}
	key, srt := e.typeKey(x.AssertedType), e.sortOf(x.AssertedType)
	ok := tb.IsBox(key, srt, xv)
	val := tb.Unbox(key, srt, xv)
	e.assumeWF(tb.True(), x.AssertedType, val)
	e.applyTypeInvs(fr, st, x.AssertedType, val, "assume", ok, x.Pos())
	if x.CommaOk {
		fr.vals[x] = Val{T: []*Term{tb.Ite(ok, val, e.zero(x.AssertedType)), ok}}
	} else {
		e.safetyObl(fr, st, "typeassert", x.Pos(), isTypeAssertExpr, ok, NamedTerm{"value", xv})
		fr.vals[x] = Val{T: []*Term{val}}
	}
}

// implementsTerm: "the dynamic type of v implements interface it". Decided statically per known box constructor
// when the value is a constructor application; otherwise an uninterpreted predicate of the value's constructor.
func (e *Enc) implementsTerm(v *Term, it types.Type) *Term {
	tb := e.tb
	if v.op == "nilIface" {
		return tb.False()
	}
	iface := it.Underlying().(*types.Interface)
	if iface.NumMethods() == 0 {
		return tb.Not(tb.Eq(v, tb.NilIface()))
	}
	name := "implements_" + sanitize(types.TypeString(it, nil))
	p := tb.Func(name, []string{"Iface"}, "Bool", v)
	e.assume(tb.True(), tb.Imp(p, tb.Not(tb.Eq(v, tb.NilIface()))))
	e.modelled("assertion to a non-empty interface type: success is an uninterpreted predicate of the value")
	return p
}

// ---------- maps (Go maps; coarse model) ----------

func (e *Enc) mapRegs(mt types.Type) (val, has *regInfo, m *types.Map) {
	m = mt.Underlying().(*types.Map)
	ks, vs := e.sortOf(m.Key()), e.sortOf(m.Elem())
	nameV := "M:" + ks + ":" + vs
	nameH := "MH:" + ks + ":" + vs
	if r, ok := e.regs[nameV]; ok {
		return r, e.regs[nameH], m
	}
	val = &regInfo{name: nameV, sort: arraySort(RefSort, arraySort(ks, vs)), typ: m.Elem()}
	has = &regInfo{name: nameH, sort: arraySort(RefSort, arraySort(ks, "Bool")), typ: types.Typ[types.Bool]}
	e.regs[nameV], e.regs[nameH] = val, has
	return val, has, m
}

func (e *Enc) mapLenReg() *regInfo {
	if r, ok := e.regs["MLEN"]; ok {
		return r
	}
	r := &regInfo{name: "MLEN", sort: arraySort(RefSort, "Int"), typ: types.Typ[types.Int]}
	e.regs["MLEN"] = r
	return r
}

func (e *Enc) mapLen(st *State, m *Term) *Term {
	l := e.tb.Select(e.reg(st, e.mapLenReg()), m)
	if !e.wfDone[l.id] && !l.bound {
		e.wfDone[l.id] = true
		e.assume(e.tb.True(), e.tb.Ge(l, e.tb.Int(0)))
	}
	return l
}

func (e *Enc) mapInit(st *State, mt types.Type, r *Term) {
	tb := e.tb
	val, has, m := e.mapRegs(mt)
	ks := e.sortOf(m.Key())
	emptyHas := tb.mk("(as const "+arraySort(ks, "Bool")+")", arraySort(ks, "Bool"), tb.False())
	e.setReg(st, has, tb.Store(e.reg(st, has), r, emptyHas))
	lr := e.mapLenReg()
	e.setReg(st, lr, tb.Store(e.reg(st, lr), r, tb.Int(0)))
	_ = val
}

func (e *Enc) lookup(fr *Frame, x *ssa.Lookup, st *State) {
	tb := e.tb
	if _, isMap := x.X.Type().Underlying().(*types.Map); !isMap {
		// string index with comma-ok does not exist; Lookup on string = s[i]
		s := e.val(fr, x.X).t()
		idx := e.val(fr, x.Index).t()
		e.safetyObl(fr, st, "index", x.Pos(), isIndexExpr, tb.And(tb.Le(tb.Int(0), idx), tb.Lt(idx, tb.StrLen(s))), NamedTerm{"index", idx}, NamedTerm{"len", tb.StrLen(s)})
		c := tb.Func("str.at", []string{"Str", "Int"}, "Int", s, idx)
		e.assume(tb.True(), tb.And(tb.Le(tb.Int(0), c), tb.Lt(c, tb.Int(256))))
		fr.vals[x] = Val{T: []*Term{c}}
		return
	}
	val, has, m := e.mapRegs(x.X.Type())
	mref := e.val(fr, x.X).t()
	k := e.val(fr, x.Index).t()
	present := tb.And(tb.Not(tb.Eq(mref, tb.Int(0))), tb.Select(tb.Select(e.reg(st, has), mref), k))
	v := tb.Ite(present, tb.Select(tb.Select(e.reg(st, val), mref), k), e.zero(m.Elem()))
	e.assumeWF(tb.True(), m.Elem(), tb.Select(tb.Select(e.reg(st, val), mref), k))
	if x.CommaOk {
		fr.vals[x] = Val{T: []*Term{v, present}}
	} else {
		fr.vals[x] = Val{T: []*Term{v}}
	}
}

func (e *Enc) mapUpdate(fr *Frame, x *ssa.MapUpdate, st *State) {
	tb := e.tb
	val, has, _ := e.mapRegs(x.Map.Type())
	mref := e.val(fr, x.Map).t()
	k := e.val(fr, x.Key).t()
	v := e.val(fr, x.Value).t()
	e.safetyObl(fr, st, "nilmap", x.Pos(), isAnyExpr, tb.Not(tb.Eq(mref, tb.Int(0))))
	hv := e.reg(st, val)
	hh := e.reg(st, has)
	lr := e.mapLenReg()
	oldLen := e.mapLen(st, mref)
	e.setReg(st, lr, tb.Store(e.reg(st, lr), mref, tb.Ite(tb.Select(tb.Select(hh, mref), k), oldLen, tb.Add(oldLen, tb.Int(1)))))
	e.setReg(st, val, tb.Store(hv, mref, tb.Store(tb.Select(hv, mref), k, v)))
	e.setReg(st, has, tb.Store(hh, mref, tb.Store(tb.Select(hh, mref), k, tb.True())))
	e.markEscaped(v, 0)
}

func (e *Enc) next(fr *Frame, x *ssa.Next, st *State) {
	tb := e.tb
	ok := tb.Fresh("next_ok", "Bool")
	rng := x.Iter.(*ssa.Range)
	if x.IsString {
		// the n-th iteration yields the n-th rune of the string: ghost counter per Range
		s := e.val(fr, rng.X).t()
		n, has := fr.rangeCount[rng]
		if !has {
			n = tb.Fresh("rangecount", "Int")
			e.assume(tb.True(), tb.Ge(n, tb.Int(0)))
		}
		okT := tb.Lt(n, e.runeCount(s))
		k := tb.Func("str.runeoff", []string{"Str", "Int"}, "Int", s, n)
		r := e.runeAt(s, n)
		e.assume(tb.True(), tb.Imp(okT, tb.And(tb.Le(tb.Int(0), k), tb.Lt(k, tb.StrLen(s)), tb.Eq(tb.Eq(k, tb.Int(0)), tb.Eq(n, tb.Int(0))))))
		fr.rangeCount[rng] = tb.Add(n, tb.Int(1))
		fr.vals[x] = Val{T: []*Term{okT, k, r}}
		if len(e.stack) == 1 {
			e.inputs = append(e.inputs, NamedTerm{"range-rune", r})
		}
		_ = ok
		return
	}
	// map iteration: a present key with its value
	val, has, m := e.mapRegs(rng.X.Type())
	mref := e.val(fr, rng.X).t()
	if con := e.topCon(); con != nil && con.opts["map-ranges-complete"] == "true" {
		// opt-in (the function does not modify a map while ranging over it, by inspection): the loop visits every key
		// exactly once, in some order that is a function of the key set: iteration n yields mapkey(m, n), it ends after
		// len(m) iterations, and every present key has an index
		n, hasN := fr.rangeCount[rng]
		if !hasN {
			n = tb.Int(0)
		}
		row := tb.Select(e.reg(st, has), mref)
		card := e.mapLen(st, mref)
		okT := tb.And(tb.Not(tb.Eq(mref, tb.Int(0))), tb.Lt(n, card))
		k := e.mapEnumKey(row, n)
		e.assume(tb.True(), tb.Imp(okT, tb.Select(row, k)))
		e.mapEnumAxiom(row, card, m)
		v := tb.Select(tb.Select(e.reg(st, val), mref), k)
		e.assumeWF(tb.True(), m.Elem(), v)
		e.assumeWF(tb.True(), m.Key(), k)
		fr.rangeCount[rng] = tb.Add(n, tb.Int(1))
		fr.vals[x] = Val{T: []*Term{okT, k, v}}
		e.modelled("option map-ranges-complete: a range over a Go map visits every key exactly once (the map is not modified during the loop, by inspection)")
		return
	}
	k := e.fresh("next_k", m.Key())
	v := tb.Select(tb.Select(e.reg(st, val), mref), k)
	e.assumeWF(tb.True(), m.Elem(), v)
	e.assume(tb.True(), tb.Imp(ok, tb.And(tb.Not(tb.Eq(mref, tb.Int(0))), tb.Select(tb.Select(e.reg(st, has), mref), k))))
	fr.vals[x] = Val{T: []*Term{ok, k, v}}
}

func (e *Enc) runeCount(s *Term) *Term {
	tb := e.tb
	c := tb.Func("str.runecount", []string{"Str"}, "Int", s)
	if !e.wfDone[c.id] && !c.bound {
		e.wfDone[c.id] = true
		e.assume(tb.True(), tb.And(tb.Le(tb.Int(0), c), tb.Le(c, tb.StrLen(s)), tb.Eq(tb.Eq(c, tb.Int(0)), tb.Eq(tb.StrLen(s), tb.Int(0)))))
	}
	return c
}

func (e *Enc) runeAt(s, n *Term) *Term {
	tb := e.tb
	r := tb.Func("str.runeat", []string{"Str", "Int"}, "Int", s, n)
	if !e.wfDone[r.id] && !r.bound {
		e.wfDone[r.id] = true
		e.assume(tb.True(), tb.And(tb.Le(tb.Int(0), r), tb.Le(r, tb.Int(0x10FFFF))))
	}
	return r
}

// midAsserts checks `assert "<anchor>" E` clauses right before the first call whose source text contains the anchor.
func (e *Enc) midAsserts(fr *Frame, x *ssa.Call, st *State) {
	if fr.con == nil || len(fr.con.asserts) == 0 {
		return
	}
	var text string
	for i := range fr.con.asserts {
		a := &fr.con.asserts[i]
		if fr.assertDone[i] {
			continue
		}
		if text == "" {
			text = e.srcText(fr.fn, x.Pos(), isCallExpr)
		}
		if !strings.Contains(text, a.anchor) {
			continue
		}
		fr.assertDone[i] = true
		env := e.envAt(fr, st, nil)
		t, err := env.evalBool(a.cl.expr)
		if err != nil {
			e.contractError(fr, "assert:"+a.cl.label, err)
			continue
		}
		q := e.oblige("assert", a.cl.label, st, t, x.Pos(), e.inputVals()...)
		q.Text = a.cl.text
		if len(a.cl.props) > 0 {
			if e.qProps == nil {
				e.qProps = map[string][]string{}
			}
			e.qProps[q.Name] = a.cl.props
		}
	}
}

// strEq: string equality; comparison with the empty literal is a length test.
func (e *Enc) strEq(a, b *Term) *Term {
	tb := e.tb
	empty := tb.StrLit("")
	if a == empty && b != empty {
		return tb.Eq(tb.StrLen(b), tb.Int(0))
	}
	if b == empty && a != empty {
		return tb.Eq(tb.StrLen(a), tb.Int(0))
	}
	return tb.Eq(a, b)
}

// ghostSets executes `ghost-set "<anchor>" g(x) = E` right after the first call whose source text contains the anchor.
func (e *Enc) ghostSets(fr *Frame, x *ssa.Call, st *State) {
	if fr.con != nil && fr.parent == nil {
		for i := range fr.con.assertsAfter {
			a := &fr.con.assertsAfter[i]
			if fr.afterDone[i] {
				continue
			}
			if !strings.Contains(e.srcText(fr.fn, x.Pos(), isCallExpr), a.anchor) {
				continue
			}
			fr.afterDone[i] = true
			fr.pendingAfter = append(fr.pendingAfter, pendingAssert{a: a, pos: x.Pos(), call: x})
		}
	}
	if fr.con == nil || len(fr.con.ghostStmts) == 0 {
		return
	}
	var text string
	for i, gs := range fr.con.ghostStmts {
		if fr.ghostDone[i] {
			continue
		}
		if text == "" {
			text = e.srcText(fr.fn, x.Pos(), isCallExpr)
		}
		if !strings.Contains(text, gs.anchor) {
			continue
		}
		fr.ghostDone[i] = true
		fr.pendingGhost = append(fr.pendingGhost, gs)
	}
}

// globalInitFacts: a package-level variable that is initialised from constants in the package initialiser and is
// stored to nowhere else in the repository has exactly those values.
func (e *Enc) globalInitFacts(g *ssa.Global, t types.Type, c *Term) {
	initFn := g.Pkg.Func("init")
	if initFn == nil || initFn.Blocks == nil {
		return
	}
	// any store outside init?
	for f := range e.L.allFuncs {
		if f == initFn || f.Blocks == nil || !inRepo(f) {
			continue
		}
		for _, b := range f.Blocks {
			for _, in := range b.Instrs {
				for _, op := range in.Operands(nil) {
					if *op == ssa.Value(g) {
						switch x := in.(type) {
						case *ssa.UnOp:
							if x.Op == token.MUL {
								continue // a read
							}
						case *ssa.FieldAddr:
							// reads through a field address are fine if every referrer is a load
							onlyLoads := true
							for _, r := range *x.Referrers() {
								if u, ok := r.(*ssa.UnOp); !ok || u.Op != token.MUL {
									onlyLoads = false
								}
							}
							if onlyLoads {
								continue
							}
						}
						return
					}
				}
			}
		}
	}
	tb := e.tb
	su, isStruct := t.Underlying().(*types.Struct)
	for _, b := range initFn.Blocks {
		for _, in := range b.Instrs {
			st, ok := in.(*ssa.Store)
			if !ok {
				continue
			}
			cv, isConst := st.Val.(*ssa.Const)
			if !isConst {
				continue
			}
			if st.Addr == ssa.Value(g) && !isStruct {
				e.assume(tb.True(), tb.Eq(c, e.constTerm(cv)))
			}
			if fa, ok := st.Addr.(*ssa.FieldAddr); ok && fa.X == ssa.Value(g) && isStruct {
				s := e.structSortOf(t, su)
				e.assume(tb.True(), tb.Eq(tb.Field(s, fa.Field, c), e.constTerm(cv)))
			}
		}
	}
	e.modelled("package-level variable " + g.Name() + " keeps the constants it is initialised with (no other store in the repository)")
}

// mapEnumKey: the key a complete range over a map with key set `row` yields in iteration n.
func (e *Enc) mapEnumKey(row, n *Term) *Term {
	_, ks := arrayElemSortPair(row.sort)
	return e.tb.Func("mapenum_key_"+sanitize(row.sort), []string{row.sort, "Int"}, ks, row, n)
}

func arrayElemSortPair(s string) (string, string) {
	is, es := arrayElemSort(s)
	_ = es
	return es, is
}

// mapEnumAxiom: every present key is visited (has an index below the length), once per key set term.
func (e *Enc) mapEnumAxiom(row, card *Term, m *types.Map) {
	tb := e.tb
	if e.mapEnumDone == nil {
		e.mapEnumDone = map[*Term]bool{}
	}
	if e.mapEnumDone[row] {
		return
	}
	e.mapEnumDone[row] = true
	ks := e.sortOf(m.Key())
	kk := tb.BoundVar("mk", ks)
	idx := tb.Func("mapenum_idx_"+sanitize(row.sort), []string{row.sort, ks}, "Int", row, kk)
	body := tb.Imp(tb.Select(row, kk), tb.And(tb.Le(tb.Int(0), idx), tb.Lt(idx, card), tb.Eq(e.mapEnumKey(row, idx), kk)))
	e.assume(tb.True(), tb.Forall([]*Term{kk}, body))
}
