#!/bin/sh
# builds the engine from files on disk only (module cache), offline
set -e
cd "$(dirname "$0")/engine"
export GOFLAGS=-mod=mod GOPROXY=off
mkdir -p ../bin
go build -o ../bin/govc .
