#!/bin/sh
# must-fail corpus: every patch under selftest/<ID>/*.diff is applied to a scratch copy of /repo; the check of <ID>
# must then exit 1 and name the expected obligation (line "# expect: <substring>" at the top of the patch).
# usage: ./selftest.sh [ID ...]      exit 0 = every patch was detected
cd "$(dirname "$0")" || exit 2
export GOFLAGS=-mod=mod GOPROXY=off VERIF_DIR="$(pwd)"
[ -x bin/govc ] || ./setup.sh || exit 2
ids="$*"; [ -n "$ids" ] || ids=$(ls selftest 2>/dev/null)
fail=0; n=0
for id in $ids; do
  for p in selftest/$id/*.diff; do
    [ -f "$p" ] || continue
    n=$((n+1))
    tmp=$(mktemp -d /tmp/govc-selftest.XXXXXX)
    rsync -a --exclude .git /repo/ "$tmp/"
    if ! (cd "$tmp" && patch -p1 -s < "$VERIF_DIR/$p"); then echo "SELFTEST-BROKEN $p (patch does not apply)"; fail=1; rm -rf "$tmp"; continue; fi
    expect=$(sed -n 's/^# expect: //p' "$p" | head -1)
    out=$(VERIF_REPO="$tmp" VERIF_OUT="$tmp/.out" bin/govc check "$id" --tier quick 2>&1); rc=$?
    if [ $rc -eq 1 ] && echo "$out" | grep -q "VIOLATION property=$id" && echo "$out" | grep -F -q -- "$expect"; then
      echo "detected   $p  ($expect)"
    else
      echo "MISSED     $p  (rc=$rc, expected obligation: $expect)"; echo "$out" | tail -5 | sed 's/^/    /'; fail=1
    fi
    rm -rf "$tmp"
  done
done
echo "selftest: $n patches, fail=$fail"
exit $fail
