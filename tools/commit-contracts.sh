#!/bin/sh
# commits the contract comment files in /repo (hook commit) and refreshes MANIFEST.hooks.source_commits
cd /repo && git add -A '*verif_contracts*.go' && git commit -qm "verif: ${1:-contract comments updated} (build tag verif, comment-only)" || true
cd /verif && python3 tools/mkmanifest.py >/dev/null
