#!/bin/sh
# runs every registered quick check against /repo and leaves fresh evidence files (to be committed)
cd /verif
for id in $(python3 -c "import json;print(' '.join(c['property_id'] for c in json.load(open('MANIFEST.json'))['checks']))"); do
  ./check.sh $id ${1:-quick} | grep -v "^KNOWN-FINDING" | tail -2
done
