#!/bin/sh
# regenerates the ledgers of all claimed properties (after engine or contract changes) and shows what changed
cd /verif; export GOFLAGS=-mod=mod GOPROXY=off VERIF_DIR=/verif
ids=${*:-$(python3 -c "import json;print(' '.join(sorted(json.load(open('tools/claims.json'))['checks'])))")}
for id in $ids; do bin/govc ledger $id | tail -3; done
git diff --stat ledger | tail -3
