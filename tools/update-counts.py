#!/usr/bin/env python3
# puts the current number of claimed obligations (ledger/<ID>.json) into the table of notes/section8.md (8.2)
import json, re, os
p = '/verif/notes/section8.md'
s = open(p).read()
for f in sorted(os.listdir('/verif/ledger')):
    id = f[:-5]
    n = len(json.load(open('/verif/ledger/' + f))['claimed'])
    s = re.sub(r'^(\| ' + id + r' \| [^|]*\| )\d+( \|)', lambda m: m.group(1) + str(n) + m.group(2), s, flags=re.M)
open(p, 'w').write(s)
