#!/usr/bin/env python3
# (re)inserts notes/section8.md into DESIGN.md in front of Appendix A
s=open('/verif/DESIGN.md').read()
sec=open('/verif/notes/section8.md').read().rstrip()+'\n\n'
a=s.index('## Appendix A')
if '## 8. As built' in s:
    b=s.index('## 8. As built')
    s=s[:b]+sec+s[a:]
else:
    s=s[:a]+sec+s[a:]
open('/verif/DESIGN.md','w').write(s)
