#!/bin/sh
# tools/mkpatch.sh <ID/name> <expected obligation substring> <file relative to /repo> <sed expression>
set -e
tmp=$(mktemp -d); cp /repo/$3 $tmp/a; sed "$4" $tmp/a > $tmp/b
if cmp -s $tmp/a $tmp/b; then echo "mkpatch: sed expression changed nothing for $1" >&2; rm -rf $tmp; exit 1; fi
mkdir -p /verif/selftest/$(dirname $1)
(echo "# expect: $2"; diff -u $tmp/a $tmp/b | sed "1s|.*|--- a/$3|;2s|.*|+++ b/$3|") > /verif/selftest/$1.diff || true
rm -rf $tmp
