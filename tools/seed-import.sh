#!/bin/sh
# tools/seed-import.sh <ID> <k> : confirm a sub-agent's seeded change in a scratch copy and keep it under seeded/<ID>-<k>/
# confirms: demo passes on the unchanged code, full suite passes with the change, demo fails with the change; then runs
# the property's check against the changed scratch copy and records whether it was detected.
id=$1; k=$2; src=/tmp/wt-$id/seed$k; [ -d $src ] || src=/verif/seeded/.raw/$id/seed$k
if [ ! -d $src ] && [ -f /verif/seeded/$id-$k/patch.diff ]; then # re-run of an imported seed
  src=$(mktemp -d /tmp/seedsrc.XXXXXX); cp /verif/seeded/$id-$k/patch.diff /verif/seeded/$id-$k/meta.json $src/; cp /verif/seeded/$id-$k/demo_test.go.txt $src/demo_test.go
fi
export GOFLAGS=-mod=mod GOPROXY=off VERIF_DIR=/verif
[ -f $src/patch.diff ] || { echo "no $src/patch.diff"; exit 2; }
dst=/verif/seeded/$id-$k; mkdir -p $dst; cp $src/patch.diff $src/meta.json $dst/; cp $src/demo_test.go $dst/demo_test.go.txt
pkgdir=$(python3 -c "import json;print(json.load(open('$src/meta.json')).get('demo_package_dir','value'))")
tmp=$(mktemp -d /tmp/seedcheck.XXXXXX); rsync -a --exclude .git --exclude 'seed*' /repo/ $tmp/
cp $src/demo_test.go $tmp/$pkgdir/zz_seed_demo_test.go
(cd $tmp && go test -vet=off -count=1 ./$pkgdir/ >$tmp/.demo0 2>&1); d0=$?
(cd $tmp && git apply --whitespace=nowarn $src/patch.diff 2>$tmp/.apply || patch -p1 -s < $src/patch.diff 2>>$tmp/.apply); ap=$?
(cd $tmp && go test -vet=off -count=1 ./$pkgdir/ >$tmp/.demo1 2>&1); d1=$?
rm $tmp/$pkgdir/zz_seed_demo_test.go
(cd $tmp && go build ./... && go test -vet=off -count=1 ./... >$tmp/.suite 2>&1); su=$?
out=$(VERIF_REPO=$tmp VERIF_OUT=$tmp/.out /verif/bin/govc check $id --tier quick 2>&1); rc=$?
det="missed"; [ $rc -eq 1 ] && det="detected"
[ $rc -ge 2 ] && det="engine-error"
viol=$(echo "$out" | grep -A1 '^VIOLATION' | grep obligation | head -3 | sed 's/^ *//' | tr '\n' ';')
python3 - <<P
import json
m=json.load(open('$dst/meta.json'))
m['confirmed_by_me']={'demo_passes_unchanged': $d0==0, 'patch_applies': $ap==0, 'demo_fails_with_change': $d1!=0, 'suite_passes_with_change': $su==0,
  'ran':'scratch copy of /repo (rsync, no .git): go test ./$pkgdir with demo before/after git apply patch.diff; go build ./... && go test -vet=off -count=1 ./... with the change; VERIF_REPO=<scratch> bin/govc check $id --tier quick'}
m['check_result']={'status':'$det','exit':$rc,'violations':'''$viol'''}
json.dump(m,open('$dst/meta.json','w'),indent=1)
P
echo "$id-$k: demo0=$d0 apply=$ap demo1=$d1 suite=$su check=$det  $viol"
rm -rf $tmp
