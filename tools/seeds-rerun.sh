#!/bin/sh
# re-runs every kept seeded change (seeded/<ID>-<k>) against the current machinery and prints the verdicts
cd /verif
for d in seeded/C*; do
  n=$(basename $d); id=${n%-*}; k=${n#*-}
  tools/seed-import.sh $id $k 2>&1 | grep -v "^WARN" | tail -1 | cut -c1-200
done
