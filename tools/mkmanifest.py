#!/usr/bin/env python3
# regenerates MANIFEST.json from the table below (run from /verif)
import json, subprocess
props=[json.loads(l) for l in open('properties.jsonl')]
hooks=subprocess.run(['git','-C','/repo','log','--format=%H %s'],capture_output=True,text=True).stdout.strip().split('\n')
hook_commits=[l.split()[0] for l in hooks if l.split(' ',1)[1].startswith('verif:')]
claims=json.load(open('tools/claims.json'))
checks=[]
na=[]
for p in props:
    i=p['id']
    if i in claims['checks']:
        c=claims['checks'][i]
        checks.append({"property_id":i,"quick_cmd":f"./check.sh {i} quick","thorough_cmd":f"./check.sh {i} thorough",
          "evidence_file":f"evidence/{i}.json","replay_cmd_template":"./check.sh --replay {path}","engine":"govc",
          "level_claimed":{"category":"proof","text":c['text'],"design_ref":c.get('design_ref','DESIGN.md section 4 '+i)},
          "level_note":c['note'],"technique":c.get('technique',"contract-based deductive verification: VCs generated from go/ssa of the real code against //@ contracts, discharged by z3/cvc5")})
    else:
        na.append({"property_id":i,"reason":claims['not_applicable'].get(i,"not yet claimed: machinery under construction (DESIGN.md section 6)")})
m={"version":1,"setup_cmd":"./setup.sh",
 "hooks":{"guard":"verif","enable":"-tags verif (comment-only contract files verif_contracts.go, read by the engine; no executable hooks)",
   "baseline_off_cmd":"cd /repo && GOFLAGS=-mod=mod GOPROXY=off go test -json -vet=off -count=1 ./...","source_commits":hook_commits,"add_only":True},
 "engines":[{"name":"govc","path":"engine","serves_properties":sorted(claims['checks'].keys()),"kind_free_text":"VC generator over go/ssa of the real code + contracts in //@ comments (build tag verif), obligations discharged by z3 4.8.12 / z3 5.1.0 / cvc5 1.0.3; counterexamples replayed with go test -overlay"}],
 "checks":checks,"notes":claims.get('notes',''),"not_applicable":na}
json.dump(m,open('MANIFEST.json','w'),indent=1)
print(len(checks),'checks',len(na),'not applicable')
